package main

// Intercepted functions: harness intrinsics, environment stubs and summaries.
// Everything in this file is part of every claim and is listed in the evidence.

import (
	"crypto/sha256"
	"encoding/binary"
	"strconv"
	"fmt"
	"go/types"
	"math"
	"strings"

	"golang.org/x/tools/go/ssa"
)

type interceptFn func(ex *Exec, caller *frame, fn *ssa.Function, args []Value) Value

const envPkg = "github.com/orbs-network/lean-helix-go/zzverifenv"
const mbPkg = "github.com/orbs-network/membuffers/go"
const repoPkg = "github.com/orbs-network/lean-helix-go"

func (ex *Exec) opaqueError(tag string) Value {
	return IfaceV{t: ex.opaqueErr, v: OpaqueV{tag: tag}}
}

func retOpaqueStr(ex *Exec, caller *frame, fn *ssa.Function, args []Value) Value {
	return StrV{s: "<str>"}
}
func retOpaqueErr(ex *Exec, caller *frame, fn *ssa.Function, args []Value) Value {
	return ex.opaqueError(fn.String())
}
func retNothing(ex *Exec, caller *frame, fn *ssa.Function, args []Value) Value { return nil }
func retNilPtr(ex *Exec, caller *frame, fn *ssa.Function, args []Value) Value  { return PtrV(nil) }

func (ex *Exec) nondetTerm(name string, w int) *Term {
	seq := ex.nondetSeq[name]
	ex.nondetSeq[name] = seq + 1
	full := fmt.Sprintf("%s#%d", name, seq)
	if w == 0 {
		return ex.tt.Var(full, KBool, 0)
	}
	return ex.tt.Var(full, KBV, w)
}

func strArg(ex *Exec, v Value) string {
	s, ok := v.(StrV)
	if !ok || !s.IsConcrete() {
		ex.unsupported("intrinsic name/label must be a concrete string")
	}
	return s.Concrete()
}

func bytesOf(ex *Exec, v Value) []*Term {
	switch x := v.(type) {
	case SliceV:
		out := make([]*Term, len(x.data))
		for i, e := range x.data {
			out[i] = e.(*Term)
		}
		return out
	case StrV:
		return x.Bytes(ex.tt)
	}
	panic(fmt.Sprintf("bytesOf %T", v))
}

func (ex *Exec) bytesEqual(a, b []*Term) *Term {
	if len(a) != len(b) {
		return ex.tt.False
	}
	res := ex.tt.True
	for i := range a {
		res = ex.tt.BAnd(res, ex.tt.Eq(a[i], b[i]))
	}
	return res
}

func hexChar(tt *TermTable, nib *Term) *Term {
	// nib: 4-bit
	n8 := tt.Zext(nib, 8)
	return tt.Ite(tt.Cmp(OUlt, n8, tt.BV(8, 10)), tt.BinBV(OAdd, n8, tt.BV(8, '0')), tt.BinBV(OAdd, n8, tt.BV(8, 'a'-10)))
}

func (eng *Engine) buildIntercepts() {
	ic := map[string]interceptFn{}
	eng.icByName = ic
	eng.pureNames = map[string]bool{}
	for _, n := range []string{"And", "Or", "Not", "Implies", "IteU64", "IteU8", "IteBool", "EqBytes", "AddOverflows"} {
		eng.pureNames[envPkg+"."+n] = true
	}
	eng.pureNames["bytes.Equal"] = true

	// ---------------- harness intrinsics ----------------
	nondet := func(w int) interceptFn {
		return func(ex *Exec, caller *frame, fn *ssa.Function, args []Value) Value {
			return ex.nondetTerm(strArg(ex, args[0]), w)
		}
	}
	ic[envPkg+".NondetU64"] = nondet(64)
	ic[envPkg+".NondetU32"] = nondet(32)
	ic[envPkg+".NondetU16"] = nondet(16)
	ic[envPkg+".NondetU8"] = nondet(8)
	ic[envPkg+".NondetBool"] = nondet(0)
	ic[envPkg+".Symbolic"] = func(ex *Exec, caller *frame, fn *ssa.Function, args []Value) Value { return ex.tt.True }
	ic[envPkg+".Assume"] = func(ex *Exec, caller *frame, fn *ssa.Function, args []Value) Value {
		c := args[0].(*Term)
		if c.IsFalse() {
			ex.abort("assume", "assumption is false")
		}
		if c.IsTrue() {
			return nil
		}
		// assumptions are asserted, and feasibility is checked so that vacuous paths end here
		if len(ex.decisions) >= len(ex.prefix) {
			r, _ := ex.sess.CheckZ3(c, false)
			if r == "unsat" {
				ex.abort("assume", "assumption infeasible")
			}
		}
		ex.addPC(c)
		return nil
	}
	ic[envPkg+".Assert"] = func(ex *Exec, caller *frame, fn *ssa.Function, args []Value) Value {
		ex.doAssert(strArg(ex, args[0]), args[1].(*Term))
		return nil
	}
	ic[envPkg+".Reach"] = func(ex *Exec, caller *frame, fn *ssa.Function, args []Value) Value {
		ex.doReach(strArg(ex, args[0]))
		return nil
	}
	ic[envPkg+".Choice"] = func(ex *Exec, caller *frame, fn *ssa.Function, args []Value) Value {
		name := strArg(ex, args[0])
		n := args[1].(*Term)
		if !n.IsConst() || n.val == 0 {
			ex.unsupported("Choice with symbolic or zero bound")
		}
		k := ex.nondetTerm(name, 64)
		ex.addPC(ex.tt.Cmp(OUlt, k, ex.tt.BV(64, n.val)))
		v := ex.concretizeRange(k, 0, n.val-1)
		return ex.tt.BV(64, v)
	}
	ic[envPkg+".Concretize"] = func(ex *Exec, caller *frame, fn *ssa.Function, args []Value) Value {
		x := args[0].(*Term)
		lo, hi := args[1].(*Term), args[2].(*Term)
		if !lo.IsConst() || !hi.IsConst() {
			ex.unsupported("Concretize with symbolic bounds")
		}
		if x.IsConst() {
			return x
		}
		in := ex.tt.BAnd(ex.tt.Cmp(OUle, lo, x), ex.tt.Cmp(OUle, x, hi))
		if !ex.branch(in) {
			return x // outside the range: stays symbolic
		}
		return ex.tt.BV(x.w, ex.concretizeRange(x, lo.val, hi.val))
	}
	ic[envPkg+".Param"] = func(ex *Exec, caller *frame, fn *ssa.Function, args []Value) Value {
		name := strArg(ex, args[0])
		v, ok := ex.cfg.Params[name]
		if !ok {
			ex.unsupported("missing run parameter %q", name)
		}
		return ex.tt.BV(64, uint64(int64(v)))
	}
	ic[envPkg+".ParamOr"] = func(ex *Exec, caller *frame, fn *ssa.Function, args []Value) Value {
		name := strArg(ex, args[0])
		v, ok := ex.cfg.Params[name]
		if !ok {
			return args[1]
		}
		return ex.tt.BV(64, uint64(int64(v)))
	}
	ic[envPkg+".Catch"] = func(ex *Exec, caller *frame, fn *ssa.Function, args []Value) (res Value) {
		res = ex.tt.BV(64, 0)
		func() {
			defer func() {
				if r := recover(); r != nil {
					switch r := r.(type) {
					case goPanic:
						ex.lastPanic = r.val
						res = ex.tt.BV(64, 1)
					case blockSignal:
						ex.lastBlock = r.what
						res = ex.tt.BV(64, 2)
					default:
						panic(r)
					}
				}
			}()
			ex.call(caller, args[0], nil, 0)
		}()
		return res
	}
	// Bounded(f): runs f under the engine's loop / step budget; false if the budget is exceeded (a loop whose
	// trip count is driven by the symbolic input). Natively: false if f does not return within 5 seconds.
	ic[envPkg+".Bounded"] = func(ex *Exec, caller *frame, fn *ssa.Function, args []Value) (res Value) {
		res = ex.tt.True
		func() {
			defer func() {
				if r := recover(); r != nil {
					if pa, ok := r.(pathAbort); ok && (pa.status == "unwind" || pa.status == "budget") {
						ex.trace = append(ex.trace, "Bounded: "+pa.msg)
						ex.boundedHit = true
						res = ex.tt.False
						return
					}
					panic(r)
				}
			}()
			ex.call(caller, args[0], nil, 0)
		}()
		return res
	}
	ic[envPkg+".RunUntilParked"] = ic[envPkg+".Catch"]
	boolOp := func(f func(tt *TermTable, a, b *Term) *Term) interceptFn {
		return func(ex *Exec, caller *frame, fn *ssa.Function, args []Value) Value {
			return f(ex.tt, args[0].(*Term), args[1].(*Term))
		}
	}
	ic[envPkg+".And"] = boolOp(func(tt *TermTable, a, b *Term) *Term { return tt.BAnd(a, b) })
	ic[envPkg+".Or"] = boolOp(func(tt *TermTable, a, b *Term) *Term { return tt.BOr(a, b) })
	ic[envPkg+".Implies"] = boolOp(func(tt *TermTable, a, b *Term) *Term { return tt.BOr(tt.BNot(a), b) })
	ic[envPkg+".Not"] = func(ex *Exec, caller *frame, fn *ssa.Function, args []Value) Value {
		return ex.tt.BNot(args[0].(*Term))
	}
	ite := func(ex *Exec, caller *frame, fn *ssa.Function, args []Value) Value {
		return ex.tt.Ite(args[0].(*Term), args[1].(*Term), args[2].(*Term))
	}
	ic[envPkg+".IteU64"] = ite
	ic[envPkg+".IteBool"] = ite
	ic[envPkg+".IteU8"] = ite
	ic[envPkg+".EqBytes"] = func(ex *Exec, caller *frame, fn *ssa.Function, args []Value) Value {
		return ex.bytesEqual(bytesOf(ex, args[0]), bytesOf(ex, args[1]))
	}
	ic[envPkg+".Note"] = func(ex *Exec, caller *frame, fn *ssa.Function, args []Value) Value {
		ex.trace = append(ex.trace, strArg(ex, args[0]))
		return nil
	}
	// wide arithmetic helpers for reference predicates: (hi,lo) = a+b ; a*b
	ic[envPkg+".AddOverflows"] = func(ex *Exec, caller *frame, fn *ssa.Function, args []Value) Value {
		a, b := args[0].(*Term), args[1].(*Term)
		return ex.tt.Cmp(OUlt, ex.tt.BinBV(OAdd, a, b), a)
	}
	// channel model
	ic[envPkg+".ChanOffer"] = func(ex *Exec, caller *frame, fn *ssa.Function, args []Value) Value {
		c := args[0].(IfaceV).v.(*ChanV)
		c.offers = append(c.offers, args[1].(IfaceV).v)
		c.offerAfter = append(c.offerAfter, nil)
		return nil
	}
	ic[envPkg+".ChanOfferAfter"] = func(ex *Exec, caller *frame, fn *ssa.Function, args []Value) Value {
		c := args[0].(IfaceV).v.(*ChanV)
		c.offers = append(c.offers, args[1].(IfaceV).v)
		c.offerAfter = append(c.offerAfter, args[2].(IfaceV).v.(*ChanV))
		return nil
	}
	ic[envPkg+".ChanTaker"] = func(ex *Exec, caller *frame, fn *ssa.Function, args []Value) Value {
		c := args[0].(IfaceV).v.(*ChanV)
		c.takers++
		return nil
	}
	ic[envPkg+".ChanOnRecv"] = func(ex *Exec, caller *frame, fn *ssa.Function, args []Value) Value {
		c := args[0].(IfaceV).v.(*ChanV)
		c.takerFns = append(c.takerFns, args[1])
		return nil
	}
	ic[envPkg+".ChanPending"] = func(ex *Exec, caller *frame, fn *ssa.Function, args []Value) Value {
		c := args[0].(IfaceV).v.(*ChanV)
		return ex.tt.BV(64, uint64(len(c.offers)))
	}
	ic[envPkg+".ChanBuffered"] = func(ex *Exec, caller *frame, fn *ssa.Function, args []Value) Value {
		c := args[0].(IfaceV).v.(*ChanV)
		return ex.tt.BV(64, uint64(len(c.buf)))
	}
	ic[envPkg+".CancelWhenIdle"] = func(ex *Exec, caller *frame, fn *ssa.Function, args []Value) Value {
		// returns a context that becomes cancelled when the interpreted thread has nothing else to do
		c := &CtxV{whenIdle: true}
		return IfaceV{t: ex.eng.ctxType, v: c}
	}

	// ---------------- formatting / logging / errors ----------------
	for _, n := range []string{"fmt.Sprintf", "fmt.Sprint", "fmt.Sprintln", "strings.Join", "encoding/hex.EncodeToString",
		repoPkg + "/services/leanhelixterm.printShortBlockProofBytes",
		repoPkg + "/services/logger.nowISO",
		repoPkg + "/services/leanhelixterm.commitMessagesToCommitteeMemberIdsStr",
		"(*" + repoPkg + "/state.HeightView).String",
	} {
		ic[n] = retOpaqueStr
	}
	for _, n := range []string{"fmt.Errorf", "errors.New", "github.com/pkg/errors.New", "github.com/pkg/errors.Errorf",
		"github.com/pkg/errors.Wrap", "github.com/pkg/errors.Wrapf", "github.com/pkg/errors.WithStack"} {
		ic[n] = retOpaqueErr
	}
	ic["github.com/pkg/errors.Wrap"] = func(ex *Exec, caller *frame, fn *ssa.Function, args []Value) Value {
		if isNilValue(args[0]) {
			return IfaceV{}
		}
		return ex.opaqueError("wrap")
	}
	ic["github.com/pkg/errors.Wrapf"] = ic["github.com/pkg/errors.Wrap"]
	// like Wrap, these return nil for a nil error
	for _, n := range []string{"WithStack", "WithMessage", "WithMessagef"} {
		ic["github.com/pkg/errors."+n] = ic["github.com/pkg/errors.Wrap"]
	}
	for _, n := range []string{"fmt.Println", "fmt.Printf", "fmt.Print", "runtime/debug.PrintStack"} {
		ic[n] = retNothing
	}
	ic["runtime.NumGoroutine"] = func(ex *Exec, caller *frame, fn *ssa.Function, args []Value) Value { return ex.tt.BV(64, 1) }
	ic["runtime/debug.Stack"] = func(ex *Exec, caller *frame, fn *ssa.Function, args []Value) Value { return SliceV{nil_: true} }
	for _, n := range []string{"Stringable", "String", "Error", "StringableSlice", "Node", "Int", "Uint64", "Bytes"} {
		ic["github.com/orbs-network/scribe/log."+n] = retNilPtr
	}

	// ---------------- sync ----------------
	for _, n := range []string{"(*sync.Mutex).Lock", "(*sync.Mutex).Unlock", "(*sync.RWMutex).Lock", "(*sync.RWMutex).Unlock",
		"(*sync.RWMutex).RLock", "(*sync.RWMutex).RUnlock"} {
		ic[n] = retNothing
	}

	// WaitGroup: spawned goroutines have run to completion when Wait is reached (gostmt.go)
	for _, n := range []string{"(*sync.WaitGroup).Add", "(*sync.WaitGroup).Done", "(*sync.WaitGroup).Wait"} {
		ic[n] = retNothing
	}
	ic["(*sync.Once).Do"] = func(ex *Exec, caller *frame, fn *ssa.Function, args []Value) Value {
		key := fmt.Sprintf("sync.Once@%p", args[0].(PtrV))
		if _, done := ex.ghost[key]; done {
			return nil
		}
		ex.ghost[key] = ex.tt.BV(1, 1)
		ex.call(caller, args[1], nil, 0)
		return nil
	}

	// ---------------- bytes / sort ----------------
	ic["bytes.Equal"] = func(ex *Exec, caller *frame, fn *ssa.Function, args []Value) Value {
		return ex.bytesEqual(bytesOf(ex, args[0]), bytesOf(ex, args[1]))
	}
	// bytes.Compare: lexicographic, exact (lengths are concrete): -1 / 0 / +1 as a 64-bit term
	ic["bytes.Compare"] = func(ex *Exec, caller *frame, fn *ssa.Function, args []Value) Value {
		a, b := bytesOf(ex, args[0]), bytesOf(ex, args[1])
		tt := ex.tt
		minus, zero, plus := tt.BV(64, ^uint64(0)), tt.BV(64, 0), tt.BV(64, 1)
		n := len(a)
		if len(b) < n {
			n = len(b)
		}
		res := zero
		switch {
		case len(a) < len(b):
			res = minus
		case len(a) > len(b):
			res = plus
		}
		for i := n - 1; i >= 0; i-- {
			res = tt.Ite(tt.Cmp(OUlt, a[i], b[i]), minus, tt.Ite(tt.Cmp(OUlt, b[i], a[i]), plus, res))
		}
		return res
	}
	ic["sort.Slice"] = func(ex *Exec, caller *frame, fn *ssa.Function, args []Value) Value {
		s := args[0].(IfaceV).v.(SliceV)
		n := len(s.data)
		if n > 12 {
			ex.abort("unwind", "sort.Slice summary is insertion sort, valid for n<=12 (pdqsort threshold); got %d", n)
		}
		less := args[1]
		for i := 1; i < n; i++ {
			for j := i; j > 0; j-- {
				r := ex.call(caller, less, []Value{ex.tt.BV(64, uint64(j)), ex.tt.BV(64, uint64(j-1))}, 0).(*Term)
				if !ex.branch(r) {
					break
				}
				s.data[j], s.data[j-1] = s.data[j-1], s.data[j]
			}
		}
		return nil
	}
	ic["sort.Sort"] = func(ex *Exec, caller *frame, fn *ssa.Function, args []Value) Value {
		iv := args[0].(IfaceV)
		meth := func(name string) Value {
			ms := ex.prog.MethodSets.MethodSet(iv.t)
			for i := 0; i < ms.Len(); i++ {
				if ms.At(i).Obj().Name() == name {
					return ex.prog.MethodValue(ms.At(i))
				}
			}
			panic("sort.Sort: no method " + name)
		}
		n := ex.call(caller, meth("Len"), []Value{iv.v}, 0).(*Term)
		if !n.IsConst() || n.val > 12 {
			ex.abort("unwind", "sort.Sort summary valid for concrete n<=12")
		}
		lessF, swapF := meth("Less"), meth("Swap")
		for i := 1; i < int(n.val); i++ {
			for j := i; j > 0; j-- {
				r := ex.call(caller, lessF, []Value{iv.v, ex.tt.BV(64, uint64(j)), ex.tt.BV(64, uint64(j-1))}, 0).(*Term)
				if !ex.branch(r) {
					break
				}
				ex.call(caller, swapF, []Value{iv.v, ex.tt.BV(64, uint64(j)), ex.tt.BV(64, uint64(j-1))}, 0)
			}
		}
		return nil
	}

	// ---------------- math ----------------
	ic["math.Floor"] = func(ex *Exec, caller *frame, fn *ssa.Function, args []Value) Value {
		return ex.tt.FUn(OFFloor, args[0].(*Term))
	}
	ic["math.Pow"] = func(ex *Exec, caller *frame, fn *ssa.Function, args []Value) Value {
		x, y := args[0].(*Term), args[1].(*Term)
		if x.IsConst() && y.IsConst() {
			return ex.tt.FP(math.Pow(math.Float64frombits(x.val), math.Float64frombits(y.val)))
		}
		// Summary used for pow(2, y) with symbolic y >= 64 only: the result is >= 2^64 or +Inf
		// (pow(2,.) is monotone and exact on integers; validated against the native function in selftest).
		if x.IsConst() && math.Float64frombits(x.val) == 2.0 {
			small := ex.tt.FCmp(OFLt, y, ex.tt.FP(64))
			r, _ := ex.sess.CheckZ3(small, false)
			if r != "unsat" {
				ex.unsupported("math.Pow(2, y) with symbolic y that may be < 64 (case-split y in the harness)")
			}
			ex.powSeq++
			p := ex.tt.Var(fmt.Sprintf("pow2#%d", ex.powSeq), KFP, 0)
			ex.addPC(ex.tt.FCmp(OFLe, ex.tt.FP(18446744073709551616.0), p))
			return p
		}
		ex.unsupported("math.Pow with symbolic arguments")
		return nil
	}
	// math.Ldexp(frac, exp): exact for concrete arguments; for frac = 1 and a symbolic exponent outside [0,64) a
	// summary: exp >= 64 gives a value >= 2^64 (or +Inf), exp < -1074 gives 0, -1074 <= exp < 0 a value in (0,1)
	ic["math.Ldexp"] = func(ex *Exec, caller *frame, fn *ssa.Function, args []Value) Value {
		x, e := args[0].(*Term), args[1].(*Term)
		if x.IsConst() && e.IsConst() {
			return ex.tt.FP(math.Ldexp(math.Float64frombits(x.val), int(e.sval())))
		}
		if !(x.IsConst() && math.Float64frombits(x.val) == 1.0) {
			ex.unsupported("math.Ldexp with symbolic fraction")
		}
		mid := ex.tt.BAnd(ex.tt.Cmp(OSle, ex.tt.BV(e.w, 0), e), ex.tt.Cmp(OSlt, e, ex.tt.BV(e.w, 64)))
		if r, _ := ex.sess.CheckZ3(mid, false); r != "unsat" {
			ex.unsupported("math.Ldexp(1, e) with symbolic e that may be in [0,64) (case-split in the harness)")
		}
		ex.powSeq++
		p := ex.tt.Var(fmt.Sprintf("ldexp#%d", ex.powSeq), KFP, 0)
		big := ex.tt.Cmp(OSle, ex.tt.BV(e.w, 64), e)
		tiny := ex.tt.Cmp(OSlt, e, ex.tt.BV(e.w, ^uint64(1073)))
		ex.addPC(ex.tt.BOr(ex.tt.BNot(big), ex.tt.FCmp(OFLe, ex.tt.FP(18446744073709551616.0), p)))
		ex.addPC(ex.tt.BOr(ex.tt.BNot(tiny), ex.tt.FCmp(OFEq, p, ex.tt.FP(0))))
		neg := ex.tt.BAnd(ex.tt.Cmp(OSlt, e, ex.tt.BV(e.w, 0)), ex.tt.BNot(tiny))
		ex.addPC(ex.tt.BOr(ex.tt.BNot(neg), ex.tt.BAnd(ex.tt.FCmp(OFLt, ex.tt.FP(0), p), ex.tt.FCmp(OFLt, p, ex.tt.FP(1)))))
		return p
	}
	ic["math.IsInf"] = func(ex *Exec, caller *frame, fn *ssa.Function, args []Value) Value {
		sign := args[1].(*Term)
		f := args[0].(*Term)
		if !sign.IsConst() {
			ex.unsupported("math.IsInf with symbolic sign")
		}
		inf := ex.tt.FUn(OFIsInf, f)
		switch {
		case sign.sval() > 0:
			return ex.tt.BAnd(inf, ex.tt.FCmp(OFLt, ex.tt.FP(0), f))
		case sign.sval() < 0:
			return ex.tt.BAnd(inf, ex.tt.FCmp(OFLt, f, ex.tt.FP(0)))
		}
		return inf
	}
	ic["math.IsNaN"] = func(ex *Exec, caller *frame, fn *ssa.Function, args []Value) Value {
		return ex.tt.FUn(OFIsNaN, args[0].(*Term))
	}

	// ---------------- context ----------------
	ic["context.Background"] = func(ex *Exec, caller *frame, fn *ssa.Function, args []Value) Value {
		return IfaceV{t: ex.eng.ctxType, v: &CtxV{}}
	}
	ic["context.TODO"] = ic["context.Background"]
	withCancel := func(ex *Exec, caller *frame, fn *ssa.Function, args []Value) Value {
		var parent *CtxV
		if p, ok := args[0].(IfaceV); ok && p.t != nil {
			parent, _ = p.v.(*CtxV)
		}
		c := &CtxV{parent: parent}
		if strings.HasSuffix(fn.Name(), "WithTimeout") || strings.HasSuffix(fn.Name(), "WithDeadline") {
			c.timeout = true
		}
		cancel := &NativeFn{name: "cancel", f: func(ex *Exec, fr *frame, a []Value) Value {
			c.cancelled = true
			return nil
		}}
		return TupleV{IfaceV{t: ex.eng.ctxType, v: c}, cancel}
	}
	ic["context.WithCancel"] = withCancel
	ic["context.WithTimeout"] = withCancel

	// ---------------- membuffers unsafe accessors (little-endian polyfill semantics + over-read flag) ----------------
	getN := func(n int) interceptFn {
		return func(ex *Exec, caller *frame, fn *ssa.Function, args []Value) Value {
			s := args[0].(SliceV)
			if len(s.data) == 0 {
				ex.goPanicStr("index out of range [0] with length 0")
			}
			full := s.data[:cap(s.data)]
			parts := make([]*Term, n)
			for i := 0; i < n; i++ {
				var b *Term
				if i < len(full) {
					b = full[i].(*Term)
				} else {
					// reads memory past the backing array: arbitrary byte
					ex.overread = true
					b = ex.nondetTerm("overread", 8)
				}
				if i >= len(s.data) {
					ex.overreadLen = true
				}
				parts[n-1-i] = b
			}
			return ex.tt.Concat(parts...)
		}
	}
	putN := func(n int) interceptFn {
		return func(ex *Exec, caller *frame, fn *ssa.Function, args []Value) Value {
			s := args[0].(SliceV)
			v := args[1].(*Term)
			if len(s.data) == 0 {
				ex.goPanicStr("index out of range [0] with length 0")
			}
			full := s.data[:cap(s.data)]
			for i := 0; i < n; i++ {
				if i >= len(full) {
					ex.unsupported("membuffers write past the backing array (memory corruption)")
				}
				full[i] = ex.tt.Extract(v, 8*i+7, 8*i)
			}
			return nil
		}
	}
	ic[mbPkg+".GetUint8"] = getN(1)
	ic[mbPkg+".GetUint16"] = getN(2)
	ic[mbPkg+".GetUint32"] = getN(4)
	ic[mbPkg+".GetUint64"] = getN(8)
	ic[mbPkg+".WriteUint8"] = putN(1)
	ic[mbPkg+".WriteUint16"] = putN(2)
	ic[mbPkg+".WriteUint32"] = putN(4)
	ic[mbPkg+".WriteUint64"] = putN(8)
	ic[mbPkg+".byteSliceToString"] = func(ex *Exec, caller *frame, fn *ssa.Function, args []Value) Value {
		return mkStr(ex.tt, bytesOf(ex, args[0]))
	}

	// ---------------- primitives: exact hex model of MemberId.String (feeds map keys in quorum) ----------------
	hexStr := func(ex *Exec, caller *frame, fn *ssa.Function, args []Value) Value {
		bs := bytesOf(ex, args[0])
		out := make([]*Term, 0, 2*len(bs))
		for _, b := range bs {
			out = append(out, hexChar(ex.tt, ex.tt.Extract(b, 7, 4)), hexChar(ex.tt, ex.tt.Extract(b, 3, 0)))
		}
		return mkStr(ex.tt, out)
	}
	// logger.MemberIdToStr / termincommittee.Str: "" for nil, else the hex of the id cut to 6 characters (exact)
	shortHex := func(ex *Exec, caller *frame, fn *ssa.Function, args []Value) Value {
		sv := args[0].(SliceV)
		if sv.nil_ {
			return StrV{}
		}
		full := hexStr(ex, caller, fn, args).(StrV)
		bs := full.Bytes(ex.tt)
		if len(bs) > 6 {
			bs = bs[:6]
		}
		return mkStr(ex.tt, bs)
	}
	ic[repoPkg+"/services/logger.MemberIdToStr"] = shortHex
	ic[repoPkg+"/services/termincommittee.Str"] = shortHex
	prim := repoPkg + "/spec/types/go/primitives"
	for _, n := range []string{"MemberId", "Signature", "RandomSeedSignature", "BlockHash", "Uint256"} {
		ic["("+prim+"."+n+").String"] = hexStr
	}
	for _, n := range []string{"MemberWeight", "BlockHeight", "View", "InstanceId", "TimestampSeconds"} {
		ic["("+prim+"."+n+").String"] = retOpaqueStr
	}

	// ---------------- random seed: injective summaries (assumption: SHA-256 collision freedom) ----------------
	ic[repoPkg+"/services/randomseed.CalculateRandomSeed"] = func(ex *Exec, caller *frame, fn *ssa.Function, args []Value) Value {
		// concrete signature bytes: the real function (SHA-256) is computed exactly
		bs := bytesOf(ex, args[0])
		allc := true
		for _, b := range bs {
			if !b.IsConst() {
				allc = false
			}
		}
		if allc {
			raw := make([]byte, len(bs))
			for i, b := range bs {
				raw[i] = byte(b.val)
			}
			hash := sha256.Sum256(raw)
			array := []byte{hash[0], hash[3], hash[7], hash[11], hash[15], hash[19], hash[23], hash[27]}
			return ex.tt.BV(64, binary.LittleEndian.Uint64(array))
		}
		// symbolic signature: injective summary, seed = the (up to 8) signature bytes, little endian
		ex.seedSummary = true
		parts := make([]*Term, 8)
		for i := 0; i < 8; i++ {
			if i < len(bs) {
				parts[7-i] = bs[i]
			} else {
				parts[7-i] = ex.tt.BV(8, 0)
			}
		}
		if len(bs) > 8 {
			ex.unsupported("CalculateRandomSeed summary handles signatures up to 8 bytes")
		}
		return ex.tt.Concat(parts...)
	}
	ic[repoPkg+"/services/randomseed.RandomSeedToBytes"] = func(ex *Exec, caller *frame, fn *ssa.Function, args []Value) Value {
		v := args[0].(*Term)
		if v.IsConst() {
			str := strconv.FormatUint(v.val, 10)
			data := make([]Value, len(str))
			for i := 0; i < len(str); i++ {
				data[i] = ex.tt.BV(8, uint64(str[i]))
			}
			return SliceV{data: data}
		}
		ex.seedSummary = true
		data := make([]Value, 8)
		for i := 0; i < 8; i++ {
			data[i] = ex.tt.Extract(v, 8*i+7, 8*i)
		}
		return SliceV{data: data}
	}

	// ---------------- time ----------------
	ic["time.Now"] = func(ex *Exec, caller *frame, fn *ssa.Function, args []Value) Value {
		return ex.zero(fn.Signature.Results().At(0).Type())
	}
	ic["(time.Time).Sub"] = func(ex *Exec, caller *frame, fn *ssa.Function, args []Value) Value { return ex.tt.BV(64, 0) }
	ic["time.AfterFunc"] = func(ex *Exec, caller *frame, fn *ssa.Function, args []Value) Value {
		// ghost timer: recorded; fired only by the harness (zzverifenv.FireTimer)
		tm := &TimerV{d: args[0].(*Term), f: args[1], id: len(ex.timers)}
		ex.timers = append(ex.timers, tm)
		// *time.Timer: a struct cell whose first field (C chan) is nil; identity is the pointer
		st := ex.zero(fn.Signature.Results().At(0).Type().(*types.Pointer).Elem())
		cell := new(Value)
		*cell = st
		tm.cell = cell
		return PtrV(cell)
	}
	ic["(*time.Timer).Stop"] = func(ex *Exec, caller *frame, fn *ssa.Function, args []Value) Value {
		p := args[0].(PtrV)
		for _, tm := range ex.timers {
			if tm.cell == p {
				if tm.stopped {
					return ex.tt.False
				}
				tm.stopped = true
				// (the race "fires while Stop is being called" is a runtime-scheduler matter: outside the model)
				if tm.fired {
					return ex.tt.False
				}
				return ex.tt.True
			}
		}
		ex.unsupported("Stop on unknown timer")
		return nil
	}
	// RecvWithin(ch, ms): receive from ch, letting pending ghost timers expire (in creation order) until one of
	// them delivers. Natively: a receive with a timeout of ms milliseconds against the real timers.
	ic[envPkg+".RecvWithin"] = func(ex *Exec, caller *frame, fn *ssa.Function, args []Value) Value {
		c := args[0].(IfaceV).v.(*ChanV)
		var got Value
		have := false
		take := &NativeFn{name: "recvwithin", f: func(ex *Exec, fr *frame, a []Value) Value {
			got, have = a[0], true
			return nil
		}}
		if len(c.buf) > 0 {
			v, _ := ex.chanRecv(c)
			return TupleV{IfaceV{t: c.elemT, v: v}, ex.tt.True}
		}
		for _, tm := range ex.timers {
			if have {
				break
			}
			if tm.stopped || tm.fired {
				continue
			}
			tm.fired = true
			c.takerFns = append(c.takerFns, take)
			func() {
				defer func() {
					if r := recover(); r != nil {
						if _, ok := r.(blockSignal); !ok {
							panic(r)
						}
					}
				}()
				ex.call(caller, tm.f, nil, 0)
			}()
			if !have {
				// the timer function did not send: withdraw the reader
				c.takerFns = c.takerFns[:len(c.takerFns)-1]
			}
		}
		if have {
			return TupleV{got, ex.tt.True}
		}
		return TupleV{IfaceV{}, ex.tt.False}
	}
	// TimersExpire(): every pending ghost timer fires with nobody reading (its function blocks in its send
	// and stays parked). Natively: sleep long enough for the (millisecond) timers to fire.
	ic[envPkg+".TimersExpire"] = func(ex *Exec, caller *frame, fn *ssa.Function, args []Value) Value {
		for _, tm := range ex.timers {
			if tm.stopped || tm.fired {
				continue
			}
			tm.fired = true
			func() {
				defer func() {
					if r := recover(); r != nil {
						if _, ok := r.(blockSignal); !ok {
							panic(r)
						}
					}
				}()
				ex.call(caller, tm.f, nil, 0)
			}()
		}
		return nil
	}
	ic[envPkg+".TimerCount"] = func(ex *Exec, caller *frame, fn *ssa.Function, args []Value) Value {
		return ex.tt.BV(64, uint64(len(ex.timers)))
	}
	ic[envPkg+".TimerLive"] = func(ex *Exec, caller *frame, fn *ssa.Function, args []Value) Value {
		n := 0
		for _, tm := range ex.timers {
			if !tm.stopped && !tm.fired {
				n++
			}
		}
		return ex.tt.BV(64, uint64(n))
	}
	ic[envPkg+".TimerDuration"] = func(ex *Exec, caller *frame, fn *ssa.Function, args []Value) Value {
		i := args[0].(*Term)
		return ex.timers[i.val].d
	}
	ic[envPkg+".TimerStopped"] = func(ex *Exec, caller *frame, fn *ssa.Function, args []Value) Value {
		i := args[0].(*Term)
		return ex.tt.Bool(ex.timers[i.val].stopped)
	}
	ic[envPkg+".TimerFiredBeforeStop"] = func(ex *Exec, caller *frame, fn *ssa.Function, args []Value) Value {
		i := args[0].(*Term)
		return ex.tt.Bool(ex.timers[i.val].firedBeforeStop)
	}
	ic[envPkg+".FireTimer"] = func(ex *Exec, caller *frame, fn *ssa.Function, args []Value) Value {
		i := args[0].(*Term)
		tm := ex.timers[i.val]
		tm.fired = true
		ex.call(caller, tm.f, nil, 0)
		return nil
	}
}

type TimerV struct {
	d               *Term
	f               Value
	id              int
	cell            PtrV
	stopped         bool
	fired           bool
	firedBeforeStop bool
}

// nativeMethod: methods of engine-modelled interface values (context.Context).
func (eng *Engine) nativeMethod(recv IfaceV, name string) (Value, bool) {
	c, ok := recv.v.(*CtxV)
	if !ok {
		return nil, false
	}
	switch name {
	case "Err":
		return &NativeFn{name: "ctx.Err", f: func(ex *Exec, fr *frame, args []Value) Value {
			if c.isCancelled() {
				return ex.opaqueError("context canceled")
			}
			return IfaceV{}
		}}, true
	case "Done":
		return &NativeFn{name: "ctx.Done", f: func(ex *Exec, fr *frame, args []Value) Value {
			if c.done == nil {
				c.done = &ChanV{ctx: c, elemT: types.NewStruct(nil, nil)}
			}
			return c.done
		}}, true
	case "Value":
		return &NativeFn{name: "ctx.Value", f: func(ex *Exec, fr *frame, args []Value) Value { return IfaceV{} }}, true
	}
	return nil, false
}
