package main

// check driver: runs the harness configurations of one property, replays solver
// models natively, classifies against known findings, writes evidence.

import (
	"encoding/json"
	"flag"
	"fmt"
	"os"
	"os/exec"
	"path/filepath"
	"sort"
	"strconv"
	"strings"
	"sync/atomic"
	"time"
)

type PropSpec struct {
	ID          string
	Quick       []RunConfig
	Thorough    []RunConfig
	Assumptions []string
	Bounds      []string
	Outside     []string
	StaticChecks []func(eng *Engine) (name string, ok bool, detail string)
	LabelPrefixes []string // if set: only assertion labels with one of these prefixes belong to this property
}

type KnownFinding struct {
	Property string `json:"property"`
	Label    string `json:"label"`
	Config   string `json:"config,omitempty"` // optional: restrict to one run configuration
	What     string `json:"what"`
}

type FixedFinding struct {
	Property string `json:"property"`
	Commit   string `json:"commit"`
	Label    string `json:"label"`
	What     string `json:"what"`
}

type KnownFile struct {
	Findings []KnownFinding `json:"findings"`
	Fixed    []FixedFinding `json:"fixed"`
}

type ReplayCase struct {
	Name    string            `json:"name"`
	Harness string            `json:"harness"`
	Params  map[string]int    `json:"params"`
	Values  map[string]uint64 `json:"values"`
	Expect  string            `json:"expect"`
	Pkg     string            `json:"pkg"`
	Label   string            `json:"label"`
	Config  string            `json:"config"`
}

type ReplayResult struct {
	Name    string   `json:"name"`
	Status  string   `json:"status"`
	Failed  []string `json:"failed"`
	Reached []string `json:"reached"`
	Panic   string   `json:"panic"`
}

func cmdCheck(args []string) {
	fs := flag.NewFlagSet("check", flag.ExitOnError)
	repo := fs.String("repo", "/repo", "repository")
	verif := fs.String("verif", "/verif", "verification directory")
	tier := fs.String("tier", "", "quick|thorough")
	replay := fs.String("replay", "", "replay a stored counterexample file")
	only := fs.String("only", "", "run only configurations whose name contains this")
	workers := fs.Int("workers", 16, "workers")
	noEvidence := fs.Bool("no-evidence", false, "do not write the evidence file")
	from := fs.Int("from", 0, "skip the first N configurations of the tier (to resume an interrupted sweep)")
	listOnly := fs.Bool("list", false, "list the configuration names of the tier and exit")
	fs.Parse(args)
	if fs.NArg() < 1 {
		fmt.Fprintln(os.Stderr, "usage: gosym check [flags] <property>")
		os.Exit(2)
	}
	id := fs.Arg(0)
	if *tier == "" {
		*tier = os.Getenv("VERIF_TIER")
	}
	if *tier == "" {
		*tier = "quick"
	}
	seed, _ := strconv.Atoi(os.Getenv("VERIF_SEED"))
	harnessDir := filepath.Join(*verif, "harness")

	if *replay != "" {
		os.Exit(replayStored(*repo, harnessDir, *replay))
	}

	spec, ok := propTable()[id]
	if !ok {
		fmt.Fprintf(os.Stderr, "no check registered for %s\n", id)
		os.Exit(2)
	}
	start := time.Now()
	eng, err := LoadEngine(*repo, harnessDir)
	if err != nil {
		fmt.Fprintln(os.Stderr, "INCONCLUSIVE: cannot load repository:", err)
		os.Exit(2)
	}
	cfgs := spec.Quick
	outsideThorough := []string{}
	if *tier == "thorough" && len(spec.Thorough) > 0 {
		// configurations that did not finish within the wall-clock budget when the thorough tier was last swept on
		// the unchanged tree are listed in thorough_outside.txt (one name per line): they are outside the registered
		// bounds (reported in the evidence) instead of making the tier inconclusive
		skip := map[string]bool{}
		if b, err := os.ReadFile(filepath.Join(*verif, "thorough_outside.txt")); err == nil {
			for _, l := range strings.Split(string(b), "\n") {
				l = strings.TrimSpace(l)
				if l != "" && !strings.HasPrefix(l, "#") {
					skip[l] = true
				}
			}
		}
		cfgs = nil
		for _, c := range spec.Thorough {
			if skip[c.Name] {
				outsideThorough = append(outsideThorough, c.Name)
				continue
			}
			cfgs = append(cfgs, c)
		}
	}
	if *from > 0 && *from < len(cfgs) {
		cfgs = cfgs[*from:]
	}
	if *listOnly {
		for _, c := range cfgs {
			if *only == "" || strings.Contains(c.Name, *only) {
				fmt.Println(c.Name)
			}
		}
		os.Exit(0)
	}
	if len(outsideThorough) > 0 {
		spec.Outside = append(spec.Outside, "thorough-tier configurations that exceeded the time budget on the unchanged tree and are not run: "+strings.Join(outsideThorough, ", "))
	}
	var reports []*Report
	for i := range cfgs {
		c := cfgs[i]
		if *only != "" && !strings.Contains(c.Name, *only) {
			continue
		}
		c.Workers = *workers
		rep := eng.Explore(&c)
		reports = append(reports, rep)
		fmt.Fprintf(os.Stderr, "[%s] %s: paths=%d status=%v labels=%d violations=%d problems=%d %.1fs\n", id, c.Name, rep.Paths, rep.Status, len(rep.Labels), len(rep.Violations), len(rep.Problems), rep.WallS)
	}

	// static checks (reported, not solver results)
	var staticNotes []string
	staticFail := false
	for _, sc := range spec.StaticChecks {
		name, ok, detail := sc(eng)
		staticNotes = append(staticNotes, fmt.Sprintf("%s: ok=%v %s", name, ok, detail))
		if !ok {
			staticFail = true
		}
	}

	// ---- native replay of every model ----
	var cases []ReplayCase
	mine := func(label string) bool {
		if len(spec.LabelPrefixes) == 0 || strings.HasSuffix(label, ".uncaught_panic") || strings.HasSuffix(label, ".would_block") {
			return true
		}
		for _, p := range spec.LabelPrefixes {
			if strings.HasPrefix(label, p) {
				return true
			}
		}
		return false
	}
	for _, rep := range reports {
		for i, v := range rep.Violations {
			if !mine(v.Label) {
				continue
			}
			cases = append(cases, ReplayCase{Name: fmt.Sprintf("%s/viol/%s/%d", rep.Config.Name, v.Label, i), Harness: rep.Config.Harness, Params: rep.Config.Params,
				Values: v.Model, Expect: "assert:" + v.Label, Pkg: rep.Config.Pkg, Label: v.Label, Config: rep.Config.Name})
		}
		var labels []string
		for l := range rep.ReachModels {
			labels = append(labels, l)
		}
		sort.Strings(labels)
		for _, l := range labels {
			cases = append(cases, ReplayCase{Name: fmt.Sprintf("%s/reach/%s", rep.Config.Name, l), Harness: rep.Config.Harness, Params: rep.Config.Params,
				Values: rep.ReachModels[l], Expect: "reach:" + l, Pkg: rep.Config.Pkg, Label: l, Config: rep.Config.Name})
		}
	}
	results, rerr := runReplays(*repo, harnessDir, cases)
	if rerr != nil {
		fmt.Fprintln(os.Stderr, "replay error:", rerr)
	}
	// Go iterates maps in random order: a counterexample (or reach witness) that depends on the order in which the
	// real storage hands out messages reproduces only in some runs. Cases that did not reproduce are replayed again
	// (up to 6 more times); a single reproducing run confirms the violation against the real code.
	reproduced := func(c ReplayCase, r ReplayResult, ok bool) bool {
		if !ok {
			return false
		}
		switch {
		case strings.HasPrefix(c.Expect, "reach:"):
			return contains(r.Reached, c.Label)
		case strings.HasSuffix(c.Label, ".uncaught_panic"):
			return r.Status == "panic"
		case strings.HasSuffix(c.Label, ".would_block"):
			return r.Status == "timeout-or-blocked"
		}
		return contains(r.Failed, c.Label)
	}
	for attempt := 0; attempt < 6; attempt++ {
		var again []ReplayCase
		for _, c := range cases {
			r, ok := results[c.Name]
			if !reproduced(c, r, ok) {
				again = append(again, c)
			}
		}
		if len(again) == 0 {
			break
		}
		more, _ := runReplays(*repo, harnessDir, again)
		for _, c := range again {
			if r, ok := more[c.Name]; ok && reproduced(c, r, true) {
				results[c.Name] = r
			}
		}
	}

	known := loadKnown(filepath.Join(*verif, "known_findings.json"))
	replayDir := filepath.Join(*verif, "replays", id)
	os.RemoveAll(replayDir)
	exit := 0
	inconclusive := []string{}
	confirmed := 0
	reachValidated := 0
	violationsReported := 0
	knownPrinted := map[string]bool{}
	for _, c := range cases {
		r, ok := results[c.Name]
		if strings.HasPrefix(c.Expect, "reach:") {
			if ok && contains(r.Reached, c.Label) {
				reachValidated++
			} else {
				inconclusive = append(inconclusive, fmt.Sprintf("reach marker %s (%s) not reproduced natively (status=%s)", c.Label, c.Config, r.Status))
			}
			continue
		}
		isConfirmed := false
		if ok {
			switch {
			case strings.HasSuffix(c.Label, ".uncaught_panic"):
				isConfirmed = r.Status == "panic"
			case strings.HasSuffix(c.Label, ".would_block"):
				isConfirmed = r.Status == "timeout-or-blocked"
			default:
				isConfirmed = contains(r.Failed, c.Label)
			}
		}
		if !isConfirmed {
			inconclusive = append(inconclusive, fmt.Sprintf("counterexample for %s (%s) did not reproduce natively: status=%s failed=%v panic=%q", c.Label, c.Config, r.Status, r.Failed, r.Panic))
			continue
		}
		confirmed++
		if kf := known.match(id, c.Label, c.Config); kf != nil {
			key := id + "|" + c.Label
			if !knownPrinted[key] {
				knownPrinted[key] = true
				fmt.Printf("KNOWN-FINDING: property=%s label=%s %s\n", id, c.Label, kf.What)
			}
			continue
		}
		os.MkdirAll(replayDir, 0o755)
		path := filepath.Join(replayDir, sanitize(c.Name)+".json")
		b, _ := json.MarshalIndent([]ReplayCase{c}, "", " ")
		os.WriteFile(path, b, 0o644)
		fmt.Printf("VIOLATION property=%s replay=%s label=%s config=%s\n", id, path, c.Label, c.Config)
		violationsReported++
		exit = 1
	}
	for _, rep := range reports {
		for _, p := range rep.Problems {
			inconclusive = append(inconclusive, rep.Config.Name+": "+p)
		}
	}
	if staticFail {
		inconclusive = append(inconclusive, "static premise failed: "+strings.Join(staticNotes, "; "))
	}
	if len(reports) == 0 {
		inconclusive = append(inconclusive, "no configuration ran")
	}
	if !*noEvidence {
		writeEvidence(filepath.Join(*verif, "evidence", id+".json"), id, *tier, seed, spec, eng, reports, reachValidated+confirmed, violationsReported, inconclusive, staticNotes, time.Since(start).Seconds(), cases, results)
	}
	for _, m := range inconclusive {
		fmt.Printf("INCONCLUSIVE property=%s %s\n", id, m)
	}
	if exit == 0 && len(inconclusive) > 0 {
		exit = 2
	}
	if exit == 0 {
		fmt.Printf("OK property=%s tier=%s configs=%d paths=%d wall=%.1fs\n", id, *tier, len(reports), totalPaths(reports), time.Since(start).Seconds())
	}
	os.Exit(exit)
}

func totalPaths(rs []*Report) int {
	n := 0
	for _, r := range rs {
		n += r.Paths
	}
	return n
}

func contains(xs []string, x string) bool {
	for _, y := range xs {
		if y == x {
			return true
		}
	}
	return false
}

func sanitize(s string) string {
	return strings.Map(func(r rune) rune {
		if (r >= 'a' && r <= 'z') || (r >= 'A' && r <= 'Z') || (r >= '0' && r <= '9') || r == '.' || r == '_' || r == '-' {
			return r
		}
		return '_'
	}, s)
}

func loadKnown(path string) *KnownFile {
	kf := &KnownFile{}
	b, err := os.ReadFile(path)
	if err == nil {
		json.Unmarshal(b, kf)
	}
	return kf
}

func (k *KnownFile) match(prop, label, config string) *KnownFinding {
	for i := range k.Findings {
		f := &k.Findings[i]
		if f.Property == prop && f.Label == label && (f.Config == "" || f.Config == config) {
			return f
		}
	}
	return nil
}

// ---- native replay ----

var replaySeq int64

func runReplays(repo, harnessDir string, cases []ReplayCase) (map[string]ReplayResult, error) {
	out := map[string]ReplayResult{}
	if len(cases) == 0 {
		return out, nil
	}
	byPkg := map[string][]ReplayCase{}
	for _, c := range cases {
		byPkg[c.Pkg] = append(byPkg[c.Pkg], c)
	}
	tmp, err := os.MkdirTemp("", "gosym-replay-")
	if err != nil {
		return out, err
	}
	defer os.RemoveAll(tmp)
	var firstErr error
	for pkg, cs := range byPkg {
		rel := strings.TrimPrefix(strings.TrimPrefix(pkg, repoPkg), "/")
		pkgDir := filepath.Join(repo, rel)
		// overlay: harness files + generated test file
		repl := map[string]string{}
		filepath.Walk(harnessDir, func(p string, info os.FileInfo, err error) error {
			if err != nil || info.IsDir() || !strings.HasSuffix(p, ".go") {
				return nil
			}
			r, _ := filepath.Rel(harnessDir, p)
			dir, base := filepath.Split(r)
			if dir == "root/" {
				dir = ""
			}
			repl[filepath.Join(repo, dir, "zz_verif_"+base)] = p
			return nil
		})
		pkgName, err := packageName(harnessDir, rel)
		if err != nil {
			firstErr = err
			continue
		}
		n := atomic.AddInt64(&replaySeq, 1)
		testFile := filepath.Join(tmp, fmt.Sprintf("replay_%d_test.go", n))
		src := fmt.Sprintf("package %s\n\nimport (\n\t\"testing\"\n\tenv \"%s\"\n)\n\nfunc TestVerifReplay(t *testing.T) { env.RunReplays(t) }\n", pkgName, envPkg)
		os.WriteFile(testFile, []byte(src), 0o644)
		repl[filepath.Join(pkgDir, "zz_verif_replay_test.go")] = testFile
		ovb, _ := json.Marshal(map[string]interface{}{"Replace": repl})
		ovFile := filepath.Join(tmp, fmt.Sprintf("overlay_%d.json", n))
		os.WriteFile(ovFile, ovb, 0o644)
		target := "./" + rel
		if rel == "" {
			target = "."
		}
		// all cases of the package run in one test process; if that process dies (a panic in a goroutine the
		// code under test spawned cannot be recovered by anybody), the case that was running is recorded as
		// status "panic" and the remaining ones are run again in a fresh process
		pending := cs
		for round := 0; len(pending) > 0 && round <= len(cs); round++ {
			caseFile := filepath.Join(tmp, fmt.Sprintf("cases_%d_%d.json", n, round))
			cb, _ := json.Marshal(pending)
			os.WriteFile(caseFile, cb, 0o644)
			cmd := exec.Command("timeout", "600", "go", "test", "-vet=off", "-count=1", "-run", "^TestVerifReplay$", "-overlay", ovFile, "-v", target)
			cmd.Dir = repo
			cmd.Env = append(os.Environ(), "VERIF_REPLAY="+caseFile, "GOFLAGS=-mod=mod", "GOPROXY=off", "GOSUMDB=off", "GOTOOLCHAIN=local")
			b, err := cmd.CombinedOutput()
			found := 0
			for _, line := range strings.Split(string(b), "\n") {
				line = strings.TrimSpace(line)
				if strings.HasPrefix(line, "VERIF-REPLAY ") {
					var r ReplayResult
					if json.Unmarshal([]byte(strings.TrimPrefix(line, "VERIF-REPLAY ")), &r) == nil {
						out[r.Name] = r
						found++
					}
				}
			}
			if found >= len(pending) {
				break
			}
			crashed := strings.Contains(string(b), "\npanic: ") || strings.Contains(string(b), "\nfatal error: ")
			if !crashed {
				firstErr = fmt.Errorf("replay of %s produced %d/%d results: %v\n%s", pkg, found, len(pending), err, tail(string(b), 3000))
				break
			}
			// cases run in order: the first one without a result is the one that killed the process
			msg := "process crashed"
			if i := strings.Index(string(b), "\npanic: "); i >= 0 {
				msg = strings.SplitN(string(b)[i+1:], "\n", 2)[0]
			}
			var rest []ReplayCase
			marked := false
			for _, c := range pending {
				if _, ok := out[c.Name]; ok {
					continue
				}
				if !marked {
					out[c.Name] = ReplayResult{Name: c.Name, Status: "panic", Panic: "unrecoverable (test process died): " + msg}
					marked = true
					continue
				}
				rest = append(rest, c)
			}
			pending = rest
		}
	}
	return out, firstErr
}

func tail(s string, n int) string {
	if len(s) > n {
		return s[len(s)-n:]
	}
	return s
}

func packageName(harnessDir, rel string) (string, error) {
	dir := filepath.Join(harnessDir, rel)
	if rel == "" {
		dir = filepath.Join(harnessDir, "root")
	}
	ents, err := os.ReadDir(dir)
	if err != nil {
		return "", err
	}
	for _, e := range ents {
		if strings.HasSuffix(e.Name(), ".go") {
			b, _ := os.ReadFile(filepath.Join(dir, e.Name()))
			for _, l := range strings.Split(string(b), "\n") {
				if strings.HasPrefix(l, "package ") {
					return strings.TrimSpace(strings.TrimPrefix(l, "package ")), nil
				}
			}
		}
	}
	return "", fmt.Errorf("no package clause found in %s", dir)
}

func replayStored(repo, harnessDir, path string) int {
	b, err := os.ReadFile(path)
	if err != nil {
		fmt.Fprintln(os.Stderr, err)
		return 2
	}
	var cases []ReplayCase
	if err := json.Unmarshal(b, &cases); err != nil {
		fmt.Fprintln(os.Stderr, err)
		return 2
	}
	res, err := runReplays(repo, harnessDir, cases)
	if err != nil {
		fmt.Fprintln(os.Stderr, err)
	}
	code := 0
	for _, c := range cases {
		r := res[c.Name]
		fmt.Printf("replay %s: status=%s failed=%v reached=%v panic=%q\n", c.Name, r.Status, r.Failed, r.Reached, r.Panic)
		if contains(r.Failed, c.Label) || (strings.HasSuffix(c.Label, ".uncaught_panic") && r.Status == "panic") {
			fmt.Printf("VIOLATION reproduced: label=%s\n", c.Label)
			code = 1
		}
	}
	return code
}

// ---- evidence ----

func writeEvidence(path, id, tier string, seed int, spec *PropSpec, eng *Engine, reports []*Report, validated, violations int, inconclusive, staticNotes []string, wall float64, cases []ReplayCase, results map[string]ReplayResult) {
	states, transitions, obligations, discharged, nontriv := 0, int64(0), 0, 0, 0
	funcs := map[string]int{}
	var samples []interface{}
	var bounds []string
	labels := map[string]*LabelStats{}
	reach := map[string]int{}
	overreads, goStmts := 0, 0
	goSites := map[string]int{}
	for _, r := range reports {
		states += r.Paths
		transitions += r.Decisions
		nontriv += r.Nontrivial
		overreads += r.Overreads
		goStmts += r.GoStatements
		for k, v := range r.GoSites {
			goSites[k] += v
		}
		for l, s := range r.Labels {
			t := labels[l]
			if t == nil {
				t = &LabelStats{}
				labels[l] = t
			}
			t.Discharged += s.Discharged
			t.Trivial += s.Trivial
			t.Violated += s.Violated
			t.Unknown += s.Unknown
			obligations += s.Discharged + s.Trivial + s.Violated + s.Unknown
			discharged += s.Discharged + s.Trivial
		}
		for l, n := range r.Reach {
			reach[l] += n
		}
		for f, n := range r.Funcs {
			funcs[f] = n
		}
		for i, s := range r.Samples {
			if i < 3 {
				samples = append(samples, map[string]interface{}{"config": r.Config.Name, "path": s})
			}
		}
		for i, v := range r.Violations {
			if i < 2 {
				samples = append(samples, map[string]interface{}{"config": r.Config.Name, "counterexample": v})
			}
		}
		bounds = append(bounds, fmt.Sprintf("%s: params=%v loop<=%d decisions<=%d paths<=%d map_rotate=%d", r.Config.Name, r.Config.Params, r.Config.MaxLoop, r.Config.MaxDecisions, r.Config.MaxPaths, r.Config.MapRotate))
	}
	if transitions == 0 {
		transitions = int64(states)
	}
	// repo-side functions only, for readability
	var fnames []string
	for f := range funcs {
		if !strings.Contains(f, "zzverifenv") {
			fnames = append(fnames, f)
		}
	}
	sort.Strings(fnames)
	fenc := map[string]int{}
	for _, f := range fnames {
		fenc[f] = funcs[f]
	}
	queries := map[string]interface{}{}
	gStatsMu.Lock()
	solverTime := 0.0
	for n, s := range gStats {
		queries[n] = map[string]interface{}{"sat": s.Sat, "unsat": s.Unsat, "unknown": s.Unknown, "errors": s.Errors, "seconds": float64(s.Nanos) / 1e9}
		solverTime += float64(s.Nanos) / 1e9
	}
	gStatsMu.Unlock()
	if len(samples) == 0 {
		samples = append(samples, "no path completed")
	}
	if states == 0 {
		states = 1
	}
	ev := map[string]interface{}{
		"property_id": id,
		"tier":        tier,
		"seed":        seed,
		"level":       "model_checking",
		"coverage": map[string]interface{}{
			"states":                        states,
			"transitions":                   transitions,
			"traces_validated_against_impl": validated,
			"samples":                       samples,
			"obligations":                   obligations,
			"discharged":                    discharged,
			"evaluations":                   states,
			"distinct_nontrivial":           nontriv,
			"rule":                          "states = symbolic paths completed (each a distinct branch-decision vector over the real code's SSA); transitions = symbolic branch decisions; an obligation is one (path, assertion label) pair; non-trivial = its condition did not fold to a constant, i.e. it was sent to an SMT solver",
			"exhaustive":                    len(inconclusive) == 0,
			"labels":                        labels,
			"reach_markers":                 reach,
			"functions_encoded":             fenc,
			"bounds":                        append(bounds, spec.Bounds...),
			"outside_claim":                 spec.Outside,
			"queries":                       queries,
			"solver_time_s":                 solverTime,
			"unsafe_overread_paths":         overreads,
			"go_statements_not_executed":    goStmts,
			"go_statement_sites":            goSites,
			"static_checks":                 staticNotes,
			"inconclusive":                  inconclusive,
			"engine":                        "gosym: symbolic execution of go/ssa of /repo's working tree (rebuilt this run), SMT back ends z3 4.8.12 / cvc5 1.0 / z3 5.1",
			"load_seconds":                  eng.loadSeconds,
		},
		"assumptions": append(append([]string{}, spec.Assumptions...), commonAssumptions...),
		"wall_s":      wall,
		"violations":  violations,
	}
	os.MkdirAll(filepath.Dir(path), 0o755)
	b, _ := json.MarshalIndent(ev, "", " ")
	os.WriteFile(path, b, 0o644)
}

var commonAssumptions = []string{
	"engine semantics: gosym's interpretation of go/ssa (bit-vector integers, IEEE float64 via SMT FP theory, amd64 float->int conversion), validated per run by natively replaying every solver model it reports",
	"intercepted functions (stubs/summaries): fmt/errors/pkg-errors formatting return opaque values; sync mutexes are no-ops (single interpreted thread); sort.Slice/sort.Sort as insertion sort (pdqsort for n<=12); membuffers unsafe accessors as little-endian byte composition with over-read flag; context model; MemberId.String exact hex model",
	"no goroutine scheduler: go statements are not executed",
	"solver verdicts: unsat from z3 4.8.12 (incremental) or a portfolio member; unknown/timeouts/errors are reported as inconclusive, never as success",
}
