package main

// Engine: program loading, path exploration, assertion handling, reports.

import (
	"fmt"
	"go/types"
	"os"
	"path/filepath"
	"runtime/debug"
	"sort"
	"strings"
	"sync"
	"time"

	"golang.org/x/tools/go/packages"
	"golang.org/x/tools/go/ssa"
	"golang.org/x/tools/go/ssa/ssautil"
)

type RunConfig struct {
	Name          string         `json:"name"`
	Pkg           string         `json:"pkg"`     // import path of the package holding the harness
	Harness       string         `json:"harness"` // function name
	Params        map[string]int `json:"params,omitempty"`
	MaxLoop       int            `json:"max_loop"`
	MaxDecisions  int            `json:"max_decisions"`
	MaxSteps      int64          `json:"max_steps"`
	MaxPaths      int            `json:"max_paths"`
	MapRotate     int            `json:"map_rotate,omitempty"`
	MapReverse    bool           `json:"map_reverse,omitempty"`
	Z3TimeoutMs   int            `json:"z3_timeout_ms"`
	FeasSolver    string         `json:"feasibility_solver,omitempty"` // "" = incremental z3; else a one-shot back end name (e.g. cvc5-int)
	AssertSolvers []string       `json:"assert_solvers,omitempty"` // portfolio used when z3 (incremental) says unknown, or directly if DirectPortfolio
	Direct        bool           `json:"direct_portfolio,omitempty"`
	AssertTimeout int            `json:"assert_timeout_s"`
	Confirm       bool           `json:"confirm_second_solver,omitempty"`
	RequireReach  []string       `json:"require_reach,omitempty"`
	Workers       int            `json:"workers,omitempty"`
	NoMerge       bool           `json:"no_if_conversion,omitempty"`
	MaxWallS      int            `json:"max_wall_s"` // wall-clock budget of the configuration; exceeded = inconclusive
	deadline      time.Time
}

func (c *RunConfig) defaults() {
	if c.MaxLoop == 0 {
		c.MaxLoop = 200
	}
	if c.MaxDecisions == 0 {
		c.MaxDecisions = 4000
	}
	if c.MaxSteps == 0 {
		c.MaxSteps = 50_000_000
	}
	if c.MaxPaths == 0 {
		c.MaxPaths = 200000
	}
	if c.Z3TimeoutMs == 0 {
		c.Z3TimeoutMs = 5000
	}
	if c.AssertTimeout == 0 {
		c.AssertTimeout = 60
	}
	if len(c.AssertSolvers) == 0 {
		c.AssertSolvers = []string{"cvc5-int", "cvc5", "z3-new"}
	}
	if c.Workers == 0 {
		c.Workers = 16
	}
	if c.MaxWallS == 0 {
		c.MaxWallS = 1500
	}
}

type Engine struct {
	prog           *ssa.Program
	pkgs           map[string]*ssa.Package
	interpPrefixes []string
	icByName       map[string]interceptFn
	icCache        sync.Map // *ssa.Function -> interceptFn (or nil marker)
	ctxType        types.Type
	rtErrType      types.Type
	opaqueErr      types.Type
	overlay        map[string][]byte
	pureNames      map[string]bool
	pureCache      sync.Map
	pdomCache      sync.Map
	loadSeconds    float64
}

type nilMarker struct{}

func (eng *Engine) intercept(fn *ssa.Function) interceptFn {
	if v, ok := eng.icCache.Load(fn); ok {
		if f, ok := v.(interceptFn); ok {
			return f
		}
		return nil
	}
	name := fn.String()
	if fn.Origin() != nil {
		name = fn.Origin().String()
	}
	f, ok := eng.icByName[name]
	if ok {
		eng.icCache.Store(fn, f)
		return f
	}
	eng.icCache.Store(fn, nilMarker{})
	return nil
}

// LoadEngine loads /repo with the harness overlay and builds SSA.
func LoadEngine(repo, harnessDir string) (*Engine, error) {
	start := time.Now()
	overlay, err := buildOverlay(repo, harnessDir)
	if err != nil {
		return nil, err
	}
	cfg := &packages.Config{
		Mode:    packages.LoadAllSyntax,
		Dir:     repo,
		Overlay: overlay,
		Env:     append(os.Environ(), "GOFLAGS=-mod=mod", "GOPROXY=off", "GOSUMDB=off", "GOTOOLCHAIN=local"),
	}
	pkgs, err := packages.Load(cfg, "./...")
	if err != nil {
		return nil, err
	}
	var errs []string
	packages.Visit(pkgs, nil, func(p *packages.Package) {
		for _, e := range p.Errors {
			errs = append(errs, p.PkgPath+": "+e.Error())
		}
	})
	if len(errs) > 0 {
		return nil, fmt.Errorf("package load errors:\n%s", strings.Join(errs, "\n"))
	}
	prog, _ := ssautil.AllPackages(pkgs, ssa.InstantiateGenerics)
	prog.Build()
	eng := &Engine{prog: prog, pkgs: map[string]*ssa.Package{}, overlay: overlay}
	for _, p := range prog.AllPackages() {
		eng.pkgs[p.Pkg.Path()] = p
	}
	eng.interpPrefixes = []string{repoPkg, mbPkg, "math/bits", "github.com/orbs-network/lean-helix-go"}
	mkNamed := func(name string) types.Type {
		return types.NewNamed(types.NewTypeName(0, nil, name, nil), types.NewStruct(nil, nil), nil)
	}
	eng.ctxType = mkNamed("verifContext")
	eng.rtErrType = mkNamed("verifRuntimeError")
	eng.opaqueErr = mkNamed("verifOpaqueError")
	eng.buildIntercepts()
	eng.loadSeconds = time.Since(start).Seconds()
	return eng, nil
}

// buildOverlay maps harnessDir/<rel>/x.go to repo/<rel>/zz_verif_x.go.
func buildOverlay(repo, harnessDir string) (map[string][]byte, error) {
	ov := map[string][]byte{}
	err := filepath.Walk(harnessDir, func(p string, info os.FileInfo, err error) error {
		if err != nil {
			return err
		}
		if info.IsDir() || !strings.HasSuffix(p, ".go") {
			return nil
		}
		rel, _ := filepath.Rel(harnessDir, p)
		dir, base := filepath.Split(rel)
		if dir == "root/" { // harness files for the repository's root package
			dir = ""
		}
		b, err := os.ReadFile(p)
		if err != nil {
			return err
		}
		ov[filepath.Join(repo, dir, "zz_verif_"+base)] = b
		return nil
	})
	return ov, err
}

// ---- reports ----

type Violation struct {
	Label     string `json:"label"`
	Model     Model  `json:"model"`
	Decisions string `json:"decisions"`
	By        string `json:"by"`
	Trace     []string `json:"trace,omitempty"`
}

type LabelStats struct {
	Discharged int `json:"discharged"`
	Trivial    int `json:"trivial"`
	Violated   int `json:"violated"`
	Unknown    int `json:"unknown"`
}

type Report struct {
	Config       *RunConfig             `json:"config"`
	Paths        int                    `json:"paths"`
	Status       map[string]int         `json:"status"`
	Labels       map[string]*LabelStats `json:"labels"`
	Violations   []Violation            `json:"violations"`
	Reach        map[string]int         `json:"reach"`
	ReachModels  map[string]Model       `json:"reach_models"`
	Problems     []string               `json:"problems"`
	Funcs        map[string]int         `json:"functions_encoded"`
	Decisions    int64                  `json:"decisions"`
	Steps        int64                  `json:"steps"`
	Samples      []PathSample           `json:"samples"`
	Overreads    int                    `json:"unsafe_overreads"`
	WallS        float64                `json:"wall_s"`
	Nontrivial   int                    `json:"nontrivial_obligations"`
	GoStatements int                    `json:"go_statements_skipped"`
	GoSites      map[string]int         `json:"go_sites,omitempty"`
}

type PathSample struct {
	Decisions string            `json:"decisions"`
	Status    string            `json:"status"`
	Asserts   map[string]string `json:"asserts"`
	Trace     []string          `json:"trace,omitempty"`
}

type PathResult struct {
	decisions []bool
	forks     [][]bool
	status    string
	msg       string
	asserts   []AssertRecord
	reaches   []ReachRecord
	funcs     map[*ssa.Function]bool
	steps     int64
	symBr     int
	overread  bool
	trace     []string
	goCount   int
	goSites   map[string]int
}

func decStr(d []bool) string {
	var sb strings.Builder
	for _, b := range d {
		if b {
			sb.WriteByte('1')
		} else {
			sb.WriteByte('0')
		}
	}
	return sb.String()
}

// doAssert decides pc ⇒ cond.
func (ex *Exec) doAssert(label string, cond *Term) {
	rec := AssertRecord{Label: label}
	tt := ex.tt
	if cond.IsTrue() {
		rec.Result = "trivial"
		ex.asserts = append(ex.asserts, rec)
		return
	}
	rec.Nontrivial = true
	neg := tt.BNot(cond)
	res, model, by := "unknown", Model(nil), "z3"
	if !ex.cfg.Direct {
		res, model = ex.sess.CheckZ3(neg, true)
	}
	if res == "unknown" {
		res, model, by = ex.sess.Portfolio(neg, true, ex.cfg.AssertSolvers, ex.cfg.AssertTimeout)
	} else if res == "unsat" && ex.cfg.Confirm {
		r2, _, by2 := ex.sess.Portfolio(neg, false, []string{"cvc5", "z3-new"}, ex.cfg.AssertTimeout)
		if r2 == "sat" {
			res, by = "unknown", "disagreement:z3/"+by2
		} else if r2 == "unsat" {
			by = "z3+" + by2
		}
	}
	if res == "sat" && ex.boundedHit {
		// the violation is "work not bounded": prefer a model with extreme values, so that the native replay
		// (which has a time limit, not a loop bound) exhibits it
		if m2 := ex.extremeModel(neg); m2 != nil {
			model = m2
		}
	}
	rec.Result, rec.Model, rec.By = res, model, by
	ex.asserts = append(ex.asserts, rec)
	if cond.IsFalse() {
		// the assertion is false on this whole path: recorded; execution continues (as the native replay does)
		return
	}
	// continue under the assumption that the assertion holds, if that is possible on this path
	if res == "sat" {
		r, _ := ex.sess.CheckZ3(cond, false)
		if r == "unsat" {
			return
		}
	}
	ex.addPC(cond)
}

// extremeModel greedily adds "variable >= 2^(w-2)" constraints for the wide nondeterministic inputs while the
// query stays satisfiable, and returns the resulting model.
func (ex *Exec) extremeModel(neg *Term) Model {
	tt := ex.tt
	cur := neg
	var best Model
	vars := append([]*Term{}, ex.sess.vars...)
	for _, v := range vars {
		if v.kind != KBV || v.w < 8 {
			continue
		}
		c := tt.BAnd(cur, tt.Cmp(OUle, tt.BV(v.w, uint64(1)<<uint(v.w-2)), v))
		r, m := ex.sess.CheckZ3(c, true)
		if r == "sat" {
			cur, best = c, m
		}
	}
	return best
}

func (ex *Exec) doReach(label string) {
	rec := ReachRecord{Label: label}
	if ex.eng.needReachModel(ex.cfg, label) {
		r, m := ex.sess.CheckZ3(nil, true)
		if r == "sat" {
			rec.Model = m
		}
	}
	ex.reaches = append(ex.reaches, rec)
}

var reachSeen sync.Map

func (eng *Engine) needReachModel(cfg *RunConfig, label string) bool {
	_, loaded := reachSeen.LoadOrStore(cfg.Name+"/"+label, true)
	return !loaded
}

func (eng *Engine) runPath(cfg *RunConfig, prefix []bool, z3 *SolverProc) (res *PathResult) {
	tt := NewTermTable()
	z3.roundTrip("(reset)")
	sess := NewSession(tt, z3, cfg)
	ex := &Exec{eng: eng, prog: eng.prog, tt: tt, sess: sess, cfg: cfg, prefix: prefix,
		globals: map[*ssa.Global]PtrV{}, inited: map[*ssa.Package]bool{}, nondetSeq: map[string]int{},
		funcsSeen: map[*ssa.Function]bool{}, ghost: map[string]Value{},
		rtErrType: eng.rtErrType, opaqueErr: eng.opaqueErr}
	res = &PathResult{}
	finish := func() {
		res.decisions = ex.decisions
		res.forks = ex.forks
		res.asserts = ex.asserts
		res.reaches = ex.reaches
		res.funcs = ex.funcsSeen
		res.steps = ex.steps
		res.symBr = ex.symBranch
		res.overread = ex.overread
		res.trace = ex.trace
		res.goCount = ex.goCount
		res.goSites = ex.goSites
	}
	defer func() {
		if r := recover(); r != nil {
			switch r := r.(type) {
			case pathAbort:
				res.status, res.msg = r.status, r.msg
			case goPanic, goCrash:
				// a panic escaped the harness (or killed the process from a spawned goroutine): implicit assertion
				res.status = "panic"
				msg := "?"
				var pv Value
				if gp, ok := r.(goPanic); ok {
					pv = gp.val
				} else {
					pv = r.(goCrash).val
				}
				if iv, ok := pv.(IfaceV); ok {
					switch v := iv.v.(type) {
					case OpaqueV:
						msg = v.tag
					case StrV:
						if v.IsConcrete() {
							msg = v.Concrete()
						}
					}
				}
				res.msg = msg
				_, m := sess.CheckZ3(nil, true)
				ex.asserts = append(ex.asserts, AssertRecord{Label: cfg.Name + ".uncaught_panic", Result: "sat", Model: m, By: "z3", Nontrivial: true})
			case blockSignal:
				res.status = "wouldblock"
				res.msg = r.what
				_, m := sess.CheckZ3(nil, true)
				ex.asserts = append(ex.asserts, AssertRecord{Label: cfg.Name + ".would_block", Result: "sat", Model: m, By: "z3", Nontrivial: true})
			default:
				res.status = "engine-error"
				res.msg = fmt.Sprintf("%v\n%s", r, debug.Stack())
			}
		}
		finish()
	}()
	pkg := eng.pkgs[cfg.Pkg]
	if pkg == nil {
		panic(pathAbort{"unsupported", "package not found: " + cfg.Pkg})
	}
	fn := pkg.Func(cfg.Harness)
	if fn == nil {
		panic(pathAbort{"unsupported", "harness not found: " + cfg.Harness})
	}
	ex.callSSA(nil, fn, nil, nil)
	res.status = "ok"
	return res
}

// Explore runs all paths of a harness.
func (eng *Engine) Explore(cfg *RunConfig) *Report {
	cfg.defaults()
	start := time.Now()
	cfg.deadline = start.Add(time.Duration(cfg.MaxWallS) * time.Second)
	rep := &Report{Config: cfg, Status: map[string]int{}, Labels: map[string]*LabelStats{}, Reach: map[string]int{},
		ReachModels: map[string]Model{}, Funcs: map[string]int{}}
	var mu sync.Mutex
	work := [][]bool{nil}
	inflight := 0
	cond := sync.NewCond(&mu)
	funcs := map[*ssa.Function]bool{}
	problems := map[string]bool{}
	stop := false
	var wg sync.WaitGroup
	for w := 0; w < cfg.Workers; w++ {
		wg.Add(1)
		go func() {
			defer wg.Done()
			z3, err := startZ3(cfg.Z3TimeoutMs)
			if err != nil {
				mu.Lock()
				problems["cannot start z3: "+err.Error()] = true
				mu.Unlock()
				return
			}
			defer z3.Close()
			for {
				mu.Lock()
				for len(work) == 0 && inflight > 0 && !stop {
					cond.Wait()
				}
				if stop || (len(work) == 0 && inflight == 0) {
					mu.Unlock()
					cond.Broadcast()
					return
				}
				item := work[len(work)-1]
				work = work[:len(work)-1]
				inflight++
				mu.Unlock()

				if z3.dead {
					z3.Close()
					z3, _ = startZ3(cfg.Z3TimeoutMs)
				}
				pr := eng.runPath(cfg, item, z3)

				mu.Lock()
				inflight--
				rep.Paths++
				rep.Status[pr.status]++
				rep.Decisions += int64(len(pr.decisions))
				rep.Steps += pr.steps
				rep.GoStatements += pr.goCount
				for k, v := range pr.goSites {
					if rep.GoSites == nil {
						rep.GoSites = map[string]int{}
					}
					rep.GoSites[k] += v
				}
				if pr.overread {
					rep.Overreads++
				}
				for f := range pr.funcs {
					funcs[f] = true
				}
				switch pr.status {
				case "unsupported", "unwind", "budget", "timebudget", "engine-error":
					problems[pr.status+": "+firstLine(pr.msg, 600)] = true
				}
				sample := PathSample{Decisions: decStr(pr.decisions), Status: pr.status, Asserts: map[string]string{}, Trace: pr.trace}
				for _, a := range pr.asserts {
					ls := rep.Labels[a.Label]
					if ls == nil {
						ls = &LabelStats{}
						rep.Labels[a.Label] = ls
					}
					sample.Asserts[a.Label] = a.Result
					if a.Nontrivial {
						rep.Nontrivial++
					}
					switch a.Result {
					case "trivial":
						ls.Trivial++
					case "unsat":
						ls.Discharged++
					case "sat":
						ls.Violated++
						if ls.Violated <= 3 {
							rep.Violations = append(rep.Violations, Violation{Label: a.Label, Model: a.Model, Decisions: decStr(pr.decisions), By: a.By, Trace: pr.trace})
						}
					default:
						ls.Unknown++
						problems["unknown verdict for "+a.Label+" ("+a.By+")"] = true
					}
				}
				for _, r := range pr.reaches {
					rep.Reach[r.Label]++
					if r.Model != nil {
						if _, ok := rep.ReachModels[r.Label]; !ok {
							rep.ReachModels[r.Label] = r.Model
						}
					}
				}
				if len(rep.Samples) < 5 || (pr.status != "ok" && len(rep.Samples) < 12) {
					rep.Samples = append(rep.Samples, sample)
				}
				work = append(work, pr.forks...)
				if time.Now().After(cfg.deadline) && (len(work) > 0 || inflight > 0) && !stop {
					problems[fmt.Sprintf("time budget %ds exhausted with %d prefixes pending", cfg.MaxWallS, len(work))] = true
					stop = true
				}
				if rep.Paths >= cfg.MaxPaths && len(work) > 0 {
					problems[fmt.Sprintf("path budget %d exhausted with %d prefixes pending", cfg.MaxPaths, len(work))] = true
					stop = true
				}
				mu.Unlock()
				cond.Broadcast()
			}
		}()
	}
	wg.Wait()
	for f := range funcs {
		n := 0
		for _, b := range f.Blocks {
			n += len(b.Instrs)
		}
		rep.Funcs[f.String()] = n
	}
	for p := range problems {
		rep.Problems = append(rep.Problems, p)
	}
	sort.Strings(rep.Problems)
	for _, l := range cfg.RequireReach {
		if rep.Reach[l] == 0 {
			rep.Problems = append(rep.Problems, "vacuity: required marker never reached: "+l)
		}
	}
	rep.WallS = time.Since(start).Seconds()
	return rep
}

func firstLine(s string, n int) string {
	if len(s) > n {
		s = s[:n]
	}
	return s
}
