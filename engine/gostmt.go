package main

import (
	"golang.org/x/tools/go/ssa"
)

// goStatement: there is no goroutine scheduler. No registered harness reaches a `go` statement on the unchanged
// tree (the harnesses play the main/worker loops and the timer goroutines themselves). If the code under test does
// spawn a goroutine, the spawned call is run to completion at the spawn point (one feasible schedule, the others
// are outside), with the semantics of a separate goroutine: a panic inside it cannot be recovered by the spawner's
// deferred functions or by the harness: it kills the process (path status panic, implicit assertion
// <config>.uncaught_panic); if it would block, the path is inconclusive (unsupported).
type goCrash struct{ val Value }

func (ex *Exec) goStatement(fr *frame, instr *ssa.Go) {
	site := fr.fn.String()
	if ex.goSites == nil {
		ex.goSites = map[string]int{}
	}
	ex.goSites[site]++
	ex.goCount++
	fn, args := ex.prepareCall(fr, &instr.Call)
	defer func() {
		if r := recover(); r != nil {
			switch r := r.(type) {
			case goPanic:
				panic(goCrash{r.val})
			case blockSignal:
				panic(pathAbort{"unsupported", "goroutine spawned in " + site + " would block (" + r.what + "): no scheduler"})
			default:
				panic(r)
			}
		}
	}()
	ex.call(fr, fn, args, instr.Pos())
}
