package main

// Symbolic interpreter for go/ssa (one path per Exec; exploration by re-execution).

import (
	"time"
	"fmt"
	"go/constant"
	"go/token"
	"go/types"
	"math"
	"os"
	"strings"

	"golang.org/x/tools/go/ssa"
)

// ---- control-flow signals (Go panics inside the interpreter) ----

type goPanic struct{ val Value } // a Go-level panic in the interpreted program

// blockSignal: the interpreted thread would block forever (no scheduler); not visible to interpreted recover().
type blockSignal struct{ what string }

type pathAbort struct {
	status string // "assume", "infeasible", "unsupported", "unwind", "budget", "wouldblock", "violation-end", "exit"
	msg    string
}

type deferred struct {
	fn   Value
	args []Value
	pos  token.Pos
}

type frame struct {
	ex        *Exec
	caller    *frame
	fn        *ssa.Function
	block     *ssa.BasicBlock
	prev      *ssa.BasicBlock
	env       map[ssa.Value]Value
	defers    []*deferred
	result    Value
	panicking bool
	panicVal  interface{}
	visits    map[*ssa.BasicBlock]int
	depth     int
	phiOverride map[*ssa.Phi]Value
}

type Decision struct {
	B bool
}

type AssertRecord struct {
	Label      string
	Result     string // "unsat" (holds), "sat" (violated), "unknown", "trivial"
	Model      Model
	By         string
	Nontrivial bool
}

type ReachRecord struct {
	Label string
	Model Model
}

// Exec is the state of one path execution.
type Exec struct {
	eng       *Engine
	prog      *ssa.Program
	tt        *TermTable
	sess      *Session
	cfg       *RunConfig
	prefix    []bool
	decisions []bool
	forks     [][]bool // alternative prefixes discovered on this path
	globals   map[*ssa.Global]PtrV
	inited    map[*ssa.Package]bool
	nondetSeq map[string]int
	asserts   []AssertRecord
	reaches   []ReachRecord
	steps     int64
	overread  bool
	status    string
	statusMsg string
	funcsSeen map[*ssa.Function]bool
	ghost     map[string]Value
	goCount   int
	goSites   map[string]int
	rtErrType types.Type
	opaqueErr types.Type
	pcLen     int
	symBranch int
	trace     []string
	lastPanic Value
	lastBlock string
	powSeq    int
	timers    []*TimerV
	overreadLen bool
	seedSummary bool
	boundedHit  bool
	speculative bool
	merges      int
}

func (ex *Exec) abort(status, format string, args ...interface{}) {
	panic(pathAbort{status, fmt.Sprintf(format, args...)})
}

func (ex *Exec) unsupported(format string, args ...interface{}) {
	panic(pathAbort{"unsupported", fmt.Sprintf(format, args...)})
}

func (ex *Exec) goPanicStr(msg string) {
	panic(goPanic{IfaceV{t: ex.rtErrType, v: OpaqueV{tag: msg}}})
}

// ---- path condition / branching ----

func (ex *Exec) addPC(c *Term) {
	if c.IsTrue() {
		return
	}
	if ex.speculative {
		panic(mergeFail{"path condition update while merging"})
	}
	ex.sess.Assert(c)
	ex.pcLen++
}

// branch decides a symbolic condition, forking if both sides are feasible.
func (ex *Exec) branch(c *Term) bool {
	if c.kind != KBool {
		panic("branch on non-bool")
	}
	if c.IsTrue() {
		return true
	}
	if c.IsFalse() {
		return false
	}
	if ex.speculative {
		panic(mergeFail{"symbolic branch while merging"})
	}
	ex.symBranch++
	pos := len(ex.decisions)
	if pos < len(ex.prefix) {
		d := ex.prefix[pos]
		ex.decisions = append(ex.decisions, d)
		if d {
			ex.addPC(c)
		} else {
			ex.addPC(ex.tt.BNot(c))
		}
		return d
	}
	if len(ex.decisions) >= ex.cfg.MaxDecisions {
		ex.abort("budget", "more than %d symbolic decisions on one path", ex.cfg.MaxDecisions)
	}
	rT, _ := ex.sess.CheckZ3(c, false)
	if rT == "unsat" {
		ex.decisions = append(ex.decisions, false)
		ex.addPC(ex.tt.BNot(c))
		return false
	}
	rF, _ := ex.sess.CheckZ3(ex.tt.BNot(c), false)
	if rF == "unsat" {
		ex.decisions = append(ex.decisions, true)
		ex.addPC(c)
		return true
	}
	// both sides feasible (or unknown): take true, queue false
	alt := make([]bool, len(ex.decisions)+1)
	copy(alt, ex.decisions)
	alt[len(ex.decisions)] = false
	ex.forks = append(ex.forks, alt)
	ex.decisions = append(ex.decisions, true)
	ex.addPC(c)
	return true
}

// concretizeRange returns a concrete value of t in [lo,hi] (t must be constrained to it), forking by bisection.
func (ex *Exec) concretizeRange(t *Term, lo, hi uint64) uint64 {
	if t.IsConst() {
		return t.val
	}
	for lo < hi {
		mid := lo + (hi-lo)/2
		if ex.branch(ex.tt.Cmp(OUle, t, ex.tt.BV(t.w, mid))) {
			hi = mid
		} else {
			lo = mid + 1
		}
	}
	// t == lo is now implied by the path condition; record it so later uses fold
	return lo
}

// ---- engine helpers ----

func (ex *Exec) global(g *ssa.Global) PtrV {
	if p, ok := ex.globals[g]; ok {
		return p
	}
	ex.ensureInit(g.Pkg)
	if p, ok := ex.globals[g]; ok {
		return p
	}
	cell := new(Value)
	*cell = ex.zero(g.Type().(*types.Pointer).Elem())
	ex.globals[g] = cell
	return cell
}

func (ex *Exec) pkgInterpretable(p *ssa.Package) bool {
	if p == nil {
		return true
	}
	path := p.Pkg.Path()
	for _, pre := range ex.eng.interpPrefixes {
		if strings.HasPrefix(path, pre) {
			return true
		}
	}
	return false
}

func (ex *Exec) ensureInit(p *ssa.Package) {
	if p == nil || ex.inited[p] {
		return
	}
	ex.inited[p] = true
	// allocate all globals
	for _, m := range p.Members {
		if g, ok := m.(*ssa.Global); ok {
			if _, ok := ex.globals[g]; !ok {
				cell := new(Value)
				*cell = ex.zero(g.Type().(*types.Pointer).Elem())
				ex.globals[g] = cell
			}
		}
	}
	if !ex.pkgInterpretable(p) {
		return
	}
	if init := p.Func("init"); init != nil && init.Blocks != nil {
		ex.callSSA(nil, init, nil, nil)
	}
}

func (ex *Exec) constValue(c *ssa.Const) Value {
	t := c.Type()
	if c.Value == nil {
		return ex.zero(t)
	}
	if tp, ok := t.(*types.TypeParam); ok {
		_ = tp
		ex.unsupported("const of type param")
	}
	if bt, ok := t.Underlying().(*types.Basic); ok {
		switch {
		case bt.Info()&types.IsBoolean != 0:
			return ex.tt.Bool(constant.BoolVal(c.Value))
		case bt.Info()&types.IsString != 0:
			return StrV{s: constant.StringVal(c.Value)}
		case bt.Info()&types.IsFloat != 0:
			f, _ := constant.Float64Val(c.Value)
			return ex.tt.FP(f)
		case bt.Info()&types.IsInteger != 0:
			w, signed := intWidth(bt)
			if signed {
				return ex.tt.BV(w, uint64(c.Int64()))
			}
			return ex.tt.BV(w, c.Uint64())
		}
	}
	ex.unsupported("const %s of type %s", c, t)
	return nil
}

func (fr *frame) get(v ssa.Value) Value {
	switch v := v.(type) {
	case *ssa.Const:
		return fr.ex.constValue(v)
	case *ssa.Global:
		return fr.ex.global(v)
	case *ssa.Function:
		return v
	case *ssa.Builtin:
		return v
	}
	if r, ok := fr.env[v]; ok {
		return r
	}
	panic(fmt.Sprintf("get: no value for %T %s in %s", v, v.Name(), fr.fn))
}

func (fr *frame) term(v ssa.Value) *Term {
	x := fr.get(v)
	t, ok := x.(*Term)
	if !ok {
		panic(fmt.Sprintf("expected scalar term for %s (%s) got %T", v.Name(), v.Type(), x))
	}
	return t
}

// ---- calls ----

func (ex *Exec) call(fr *frame, fv Value, args []Value, pos token.Pos) Value {
	switch f := fv.(type) {
	case *ssa.Function:
		if f == nil {
			ex.goPanicStr("call of nil function")
		}
		return ex.callSSA(fr, f, args, nil)
	case *ClosureV:
		if f == nil {
			ex.goPanicStr("call of nil closure")
		}
		return ex.callSSA(fr, f.fn, args, f.env)
	case *ssa.Builtin:
		return ex.callBuiltin(fr, f, args)
	case *NativeFn:
		return f.f(ex, fr, args)
	}
	panic(fmt.Sprintf("call of non-function %T", fv))
}

// NativeFn: a function value implemented by the engine (e.g. context cancel funcs).
type NativeFn struct {
	name string
	f    func(ex *Exec, fr *frame, args []Value) Value
}

func (ex *Exec) callSSA(caller *frame, fn *ssa.Function, args []Value, env []Value) Value {
	if ic := ex.eng.intercept(fn); ic != nil {
		return ic(ex, caller, fn, args)
	}
	if caller != nil && fn.Pkg != nil && fn.Name() == "init" && fn == fn.Pkg.Func("init") {
		ex.ensureInit(fn.Pkg) // dependency initialisation: only interpreted packages are run
		return nil
	}
	if fn.Blocks == nil {
		ex.unsupported("call to external function %s", fn)
	}
	if !ex.pkgInterpretable(fn.Pkg) && fn.Pkg != nil {
		ex.unsupported("call into non-interpreted package: %s", fn)
	}
	if fn.Pkg == nil && fn.Origin() != nil && fn.Origin().Pkg != nil && !ex.pkgInterpretable(fn.Origin().Pkg) {
		ex.unsupported("call into non-interpreted generic: %s", fn)
	}
	if fn.Pkg != nil {
		ex.ensureInit(fn.Pkg)
	}
	depth := 0
	if caller != nil {
		depth = caller.depth + 1
	}
	if depth > 400 {
		ex.abort("budget", "call depth exceeded in %s", fn)
	}
	ex.funcsSeen[fn] = true
	fr := &frame{ex: ex, caller: caller, fn: fn, env: make(map[ssa.Value]Value, 16), depth: depth}
	for i, p := range fn.Params {
		fr.env[p] = args[i]
	}
	for i, fv := range fn.FreeVars {
		fr.env[fv] = env[i]
	}
	fr.block = fn.Blocks[0]
	for fr.block != nil {
		ex.runFrame(fr)
	}
	return fr.result
}

func (ex *Exec) runFrame(fr *frame) {
	defer func() {
		if fr.block == nil {
			return // normal return
		}
		r := recover()
		if _, ok := r.(goPanic); !ok {
			panic(r) // engine-level abort or interpreter bug: propagate untouched
		}
		fr.panicking = true
		fr.panicVal = r
		fr.runDefers()
		fr.block = fr.fn.Recover
	}()
	for {
		if fr.visits == nil {
			fr.visits = map[*ssa.BasicBlock]int{}
		}
		fr.visits[fr.block]++
		if fr.visits[fr.block] > ex.cfg.MaxLoop {
			ex.abort("unwind", "loop bound %d exceeded in %s block %d", ex.cfg.MaxLoop, fr.fn, fr.block.Index)
		}
		jumped := false
		for _, instr := range fr.block.Instrs {
			ex.steps++
			if ex.steps&0xfffff == 0 && !ex.cfg.deadline.IsZero() && time.Now().After(ex.cfg.deadline) {
				panic(pathAbort{"timebudget", "time budget of the configuration exhausted inside a path"})
			}
			if ex.steps > ex.cfg.MaxSteps {
				ex.abort("budget", "step budget exceeded")
			}
			switch ex.visit(fr, instr) {
			case kReturn:
				return
			case kJump:
				jumped = true
			}
			if jumped {
				break
			}
		}
		if !jumped {
			panic("block fell through: " + fr.fn.String())
		}
	}
}

func (fr *frame) runDefers() {
	for len(fr.defers) > 0 {
		d := fr.defers[len(fr.defers)-1]
		fr.defers = fr.defers[:len(fr.defers)-1]
		fr.runDefer(d)
	}
	if fr.panicking {
		panic(fr.panicVal)
	}
}

func (fr *frame) runDefer(d *deferred) {
	ok := false
	defer func() {
		if !ok {
			r := recover()
			if _, isGo := r.(goPanic); !isGo {
				panic(r)
			}
			fr.panicking = true
			fr.panicVal = r
		}
	}()
	fr.ex.call(fr, d.fn, d.args, d.pos)
	ok = true
}

type cont int

const (
	kNext cont = iota
	kReturn
	kJump
)

func (ex *Exec) visit(fr *frame, instr ssa.Instruction) cont {
	switch instr := instr.(type) {
	case *ssa.DebugRef:
	case *ssa.UnOp:
		fr.env[instr] = ex.unop(fr, instr)
	case *ssa.BinOp:
		fr.env[instr] = ex.binop(fr, instr.Op, instr.X.Type(), fr.get(instr.X), fr.get(instr.Y), instr.Y.Type())
	case *ssa.Call:
		fn, args := ex.prepareCall(fr, &instr.Call)
		fr.env[instr] = ex.call(fr, fn, args, instr.Pos())
	case *ssa.ChangeInterface:
		fr.env[instr] = fr.get(instr.X)
	case *ssa.ChangeType:
		fr.env[instr] = fr.get(instr.X)
	case *ssa.Convert:
		fr.env[instr] = ex.conv(instr.Type(), instr.X.Type(), fr.get(instr.X))
	case *ssa.MultiConvert:
		fr.env[instr] = ex.conv(instr.Type(), instr.X.Type(), fr.get(instr.X))
	case *ssa.SliceToArrayPointer:
		s := fr.get(instr.X).(SliceV)
		n := int(instr.Type().(*types.Pointer).Elem().Underlying().(*types.Array).Len())
		if len(s.data) < n {
			ex.goPanicStr("slice to array pointer: length too short")
		}
		if s.nil_ && n == 0 {
			fr.env[instr] = PtrV(nil)
		} else {
			// arrays are []Value: share the backing store
			var cell Value = ArrayV(s.data[:n:n])
			fr.env[instr] = &cell
		}
	case *ssa.MakeInterface:
		fr.env[instr] = IfaceV{t: instr.X.Type(), v: copyVal(fr.get(instr.X))}
	case *ssa.Extract:
		fr.env[instr] = fr.get(instr.Tuple).(TupleV)[instr.Index]
	case *ssa.Slice:
		fr.env[instr] = ex.slice(fr, instr)
	case *ssa.Return:
		switch len(instr.Results) {
		case 0:
		case 1:
			fr.result = fr.get(instr.Results[0])
		default:
			res := make(TupleV, len(instr.Results))
			for i, r := range instr.Results {
				res[i] = fr.get(r)
			}
			fr.result = res
		}
		fr.block = nil
		return kReturn
	case *ssa.RunDefers:
		fr.runDefers()
	case *ssa.Panic:
		panic(goPanic{fr.get(instr.X)})
	case *ssa.Send:
		ex.chanSend(fr.get(instr.Chan).(*ChanV), fr.get(instr.X))
	case *ssa.Store:
		addr, ok := fr.get(instr.Addr).(PtrV)
		if !ok {
			panic(fmt.Sprintf("store to non-pointer %T", fr.get(instr.Addr)))
		}
		if addr == nil {
			ex.goPanicStr("nil pointer dereference (store)")
		}
		store(addr, fr.get(instr.Val))
	case *ssa.If:
		c := fr.term(instr.Cond)
		if !c.IsConst() && !ex.cfg.NoMerge && ex.tryMerge(fr, instr, c) {
			return kJump
		}
		if ex.speculative {
			panic(mergeFail{"branch in speculative arm"})
		}
		succ := 1
		if ex.branch(c) {
			succ = 0
		}
		fr.prev, fr.block = fr.block, fr.block.Succs[succ]
		return kJump
	case *ssa.Jump:
		fr.prev, fr.block = fr.block, fr.block.Succs[0]
		return kJump
	case *ssa.Defer:
		fn, args := ex.prepareCall(fr, &instr.Call)
		fr.defers = append(fr.defers, &deferred{fn: fn, args: args, pos: instr.Pos()})
	case *ssa.Go:
		ex.goStatement(fr, instr)
	case *ssa.MakeChan:
		n := ex.concInt(fr.term(instr.Size), 0, 1<<20)
		fr.env[instr] = &ChanV{cap: int(n), elemT: instr.Type().Underlying().(*types.Chan).Elem()}
	case *ssa.Alloc:
		cell := new(Value)
		*cell = ex.zero(instr.Type().(*types.Pointer).Elem())
		fr.env[instr] = PtrV(cell)
	case *ssa.MakeSlice:
		n := int(ex.concInt(fr.term(instr.Len), 0, 1<<16))
		c := int(ex.concInt(fr.term(instr.Cap), 0, 1<<16))
		if c < n {
			ex.goPanicStr("makeslice: cap out of range")
		}
		et := instr.Type().Underlying().(*types.Slice).Elem()
		data := make([]Value, c)
		for i := range data {
			data[i] = ex.zero(et)
		}
		fr.env[instr] = SliceV{data: data[:n]}
	case *ssa.MakeMap:
		mt := instr.Type().Underlying().(*types.Map)
		fr.env[instr] = &MapV{keyT: mt.Key(), elemT: mt.Elem()}
	case *ssa.Range:
		fr.env[instr] = ex.rangeIter(fr.get(instr.X))
	case *ssa.Next:
		fr.env[instr] = ex.iterNext(fr.get(instr.Iter).(*iterV), instr)
	case *ssa.FieldAddr:
		if sp, ok := fr.get(instr.X).(*SymPtrV); ok {
			fr.env[instr] = &SymPtrV{elems: sp.elems, idx: sp.idx, path: append(append([]int{}, sp.path...), instr.Field)}
			break
		}
		p := fr.get(instr.X).(PtrV)
		if p == nil {
			ex.goPanicStr("nil pointer dereference (field)")
		}
		s, ok := (*p).(StructV)
		if !ok {
			panic(fmt.Sprintf("FieldAddr on %T in %s", *p, fr.fn))
		}
		fr.env[instr] = PtrV(&s[instr.Field])
	case *ssa.Field:
		fr.env[instr] = copyVal(fr.get(instr.X).(StructV)[instr.Field])
	case *ssa.IndexAddr:
		fr.env[instr] = ex.indexAddr(fr, instr)
	case *ssa.Index:
		x := fr.get(instr.X)
		switch x := x.(type) {
		case ArrayV:
			i := ex.boundIndex(fr.term(instr.Index), instr.Index.Type(), len(x))
			fr.env[instr] = copyVal(x[i])
		case StrV:
			i := ex.boundIndex(fr.term(instr.Index), instr.Index.Type(), x.Len())
			fr.env[instr] = x.Bytes(ex.tt)[i]
		default:
			panic(fmt.Sprintf("Index on %T", x))
		}
	case *ssa.Lookup:
		fr.env[instr] = ex.lookup(fr, instr)
	case *ssa.MapUpdate:
		m := fr.get(instr.Map).(*MapV)
		if m == nil {
			ex.goPanicStr("assignment to entry in nil map")
		}
		ex.mapUpdate(m, fr.get(instr.Key), copyVal(fr.get(instr.Value)))
	case *ssa.TypeAssert:
		fr.env[instr] = ex.typeAssert(instr, fr.get(instr.X))
	case *ssa.MakeClosure:
		var env []Value
		for _, b := range instr.Bindings {
			env = append(env, fr.get(b))
		}
		fr.env[instr] = &ClosureV{fn: instr.Fn.(*ssa.Function), env: env}
	case *ssa.Phi:
		if v, ok := fr.phiOverride[instr]; ok {
			fr.env[instr] = v
			delete(fr.phiOverride, instr)
			break
		}
		for i, pred := range instr.Block().Preds {
			if fr.prev == pred {
				fr.env[instr] = fr.get(instr.Edges[i])
				break
			}
		}
	case *ssa.Select:
		fr.env[instr] = ex.selectStmt(fr, instr)
	default:
		ex.unsupported("instruction %T in %s", instr, fr.fn)
	}
	return kNext
}

func (ex *Exec) prepareCall(fr *frame, call *ssa.CallCommon) (Value, []Value) {
	v := fr.get(call.Value)
	var args []Value
	var fn Value
	if call.Method == nil {
		fn = v
	} else {
		recv, ok := v.(IfaceV)
		if !ok {
			panic(fmt.Sprintf("invoke on non-interface %T", v))
		}
		if recv.t == nil {
			ex.goPanicStr("nil pointer dereference (method call on nil interface): " + call.Method.Name())
		}
		fn = ex.lookupMethod(recv, call.Method)
		args = append(args, recv.v)
	}
	for _, a := range call.Args {
		args = append(args, fr.get(a))
	}
	return fn, args
}

func (ex *Exec) lookupMethod(recv IfaceV, meth *types.Func) Value {
	if recv.t == ex.opaqueErr || recv.t == ex.rtErrType {
		name := meth.Name()
		return &NativeFn{name: "opaque." + name, f: func(ex *Exec, fr *frame, args []Value) Value {
			switch name {
			case "Error", "String":
				return StrV{s: "<opaque>"}
			}
			ex.unsupported("method %s on opaque value", name)
			return nil
		}}
	}
	if nm, ok := ex.eng.nativeMethod(recv, meth.Name()); ok {
		return nm
	}
	ms := ex.prog.MethodSets.MethodSet(recv.t)
	sel := ms.Lookup(meth.Pkg(), meth.Name())
	if sel == nil {
		panic(fmt.Sprintf("method %s not found on %s", meth.Name(), recv.t))
	}
	f := ex.prog.MethodValue(sel)
	if f == nil {
		panic(fmt.Sprintf("no MethodValue for %s on %s", meth.Name(), recv.t))
	}
	return f
}

// ---- scalars ----

func (ex *Exec) concInt(t *Term, lo, hi uint64) uint64 {
	if t.IsConst() {
		return t.val
	}
	// constrain then bisect
	in := ex.tt.BAnd(ex.tt.Cmp(OUle, ex.tt.BV(t.w, lo), t), ex.tt.Cmp(OUle, t, ex.tt.BV(t.w, hi)))
	if !ex.branch(in) {
		ex.unsupported("symbolic size outside [%d,%d]", lo, hi)
	}
	return ex.concretizeRange(t, lo, hi)
}

func (ex *Exec) boundIndex(idx *Term, idxT types.Type, n int) int {
	tt := ex.tt
	i64 := ex.toWidth(idx, idxT, 64)
	if i64.IsConst() {
		if i64.val >= uint64(n) {
			ex.goPanicStr(fmt.Sprintf("index out of range [%d] with length %d", int64(i64.val), n))
		}
		return int(i64.val)
	}
	if n == 0 || !ex.branch(tt.Cmp(OUlt, i64, tt.BV(64, uint64(n)))) {
		ex.goPanicStr(fmt.Sprintf("index out of range [symbolic] with length %d", n))
	}
	return int(ex.concretizeRange(i64, 0, uint64(n-1)))
}

func (ex *Exec) toWidth(t *Term, from types.Type, w int) *Term {
	if t.w == w {
		return t
	}
	if t.w > w {
		return ex.tt.Extract(t, w-1, 0)
	}
	_, signed := intWidth(from.Underlying().(*types.Basic))
	if signed {
		return ex.tt.Sext(t, w)
	}
	return ex.tt.Zext(t, w)
}

func (ex *Exec) unop(fr *frame, instr *ssa.UnOp) Value {
	x := fr.get(instr.X)
	tt := ex.tt
	switch instr.Op {
	case token.MUL: // load
		if sp, ok := x.(*SymPtrV); ok {
			return ex.loadSym(sp)
		}
		p, ok := x.(PtrV)
		if !ok {
			panic(fmt.Sprintf("load from %T in %s", x, fr.fn))
		}
		if p == nil {
			ex.goPanicStr("nil pointer dereference (load)")
		}
		return load(p)
	case token.NOT:
		return tt.BNot(x.(*Term))
	case token.SUB:
		t := x.(*Term)
		if t.kind == KFP {
			return tt.FUn(OFNeg, t)
		}
		return tt.Neg(t)
	case token.XOR:
		return tt.Not(x.(*Term))
	case token.ARROW:
		v, ok := ex.chanRecv(x.(*ChanV))
		if instr.CommaOk {
			return TupleV{v, tt.Bool(ok)}
		}
		return v
	}
	ex.unsupported("unop %s", instr.Op)
	return nil
}

func (ex *Exec) binop(fr *frame, op token.Token, xt types.Type, x, y Value, yt types.Type) Value {
	tt := ex.tt
	switch op {
	case token.EQL:
		return ex.equals(x, y)
	case token.NEQ:
		return tt.BNot(ex.equals(x, y))
	}
	if xs, ok := x.(StrV); ok {
		ys := y.(StrV)
		switch op {
		case token.ADD:
			if xs.sym == nil && ys.sym == nil {
				return StrV{s: xs.s + ys.s}
			}
			return mkStr(tt, append(append([]*Term{}, xs.Bytes(tt)...), ys.Bytes(tt)...))
		case token.LSS, token.LEQ, token.GTR, token.GEQ:
			if xs.IsConcrete() && ys.IsConcrete() {
				a, b := xs.Concrete(), ys.Concrete()
				switch op {
				case token.LSS:
					return tt.Bool(a < b)
				case token.LEQ:
					return tt.Bool(a <= b)
				case token.GTR:
					return tt.Bool(a > b)
				case token.GEQ:
					return tt.Bool(a >= b)
				}
			}
		}
		ex.unsupported("string binop %s on symbolic strings", op)
	}
	a, ok := x.(*Term)
	b, ok2 := y.(*Term)
	if !ok || !ok2 {
		panic(fmt.Sprintf("binop %s on %T,%T", op, x, y))
	}
	if a.kind == KBool {
		switch op {
		case token.AND, token.LAND:
			return tt.BAnd(a, b)
		case token.OR, token.LOR:
			return tt.BOr(a, b)
		}
		ex.unsupported("bool binop %s", op)
	}
	if a.kind == KFP {
		switch op {
		case token.ADD:
			return tt.FBin(OFAdd, a, b)
		case token.SUB:
			return tt.FBin(OFSub, a, b)
		case token.MUL:
			return tt.FBin(OFMul, a, b)
		case token.QUO:
			return tt.FBin(OFDiv, a, b)
		case token.LSS:
			return tt.FCmp(OFLt, a, b)
		case token.LEQ:
			return tt.FCmp(OFLe, a, b)
		case token.GTR:
			return tt.FCmp(OFLt, b, a)
		case token.GEQ:
			return tt.FCmp(OFLe, b, a)
		}
		ex.unsupported("float binop %s", op)
	}
	bt, _ := xt.Underlying().(*types.Basic)
	if bt == nil {
		panic(fmt.Sprintf("binop on non-basic type %s", xt))
	}
	_, signed := intWidth(bt)
	switch op {
	case token.ADD:
		return tt.BinBV(OAdd, a, b)
	case token.SUB:
		return tt.BinBV(OSub, a, b)
	case token.MUL:
		return tt.BinBV(OMul, a, b)
	case token.QUO, token.REM:
		if b.IsConst() {
			if b.val == 0 {
				ex.goPanicStr("integer divide by zero")
			}
		} else if ex.branch(tt.Eq(b, tt.BV(b.w, 0))) {
			ex.goPanicStr("integer divide by zero")
		}
		if op == token.QUO {
			if signed {
				return tt.BinBV(OSDiv, a, b)
			}
			return tt.BinBV(OUDiv, a, b)
		}
		if signed {
			return tt.BinBV(OSRem, a, b)
		}
		return tt.BinBV(OURem, a, b)
	case token.AND:
		return tt.BinBV(OAnd, a, b)
	case token.OR:
		return tt.BinBV(OOr, a, b)
	case token.XOR:
		return tt.BinBV(OXor, a, b)
	case token.AND_NOT:
		return tt.BinBV(OAnd, a, tt.Not(b))
	case token.SHL, token.SHR:
		// shift count: unsigned (or non-negative) of any width
		ybt := yt.Underlying().(*types.Basic)
		_, ysigned := intWidth(ybt)
		if ysigned {
			if b.IsConst() {
				if b.sval() < 0 {
					ex.goPanicStr("negative shift amount")
				}
			} else if ex.branch(tt.Cmp(OSlt, b, tt.BV(b.w, 0))) {
				ex.goPanicStr("negative shift amount")
			}
		}
		var cnt *Term
		big := tt.False
		if b.w > a.w {
			big = tt.Cmp(OUle, tt.BV(b.w, uint64(a.w)), b)
			cnt = tt.Extract(b, a.w-1, 0)
		} else {
			cnt = tt.Zext(b, a.w)
		}
		var r *Term
		if op == token.SHL {
			r = tt.BinBV(OShl, a, cnt)
			return tt.Ite(big, tt.BV(a.w, 0), r)
		}
		if signed {
			r = tt.BinBV(OAshr, a, cnt)
			return tt.Ite(big, tt.BinBV(OAshr, a, tt.BV(a.w, uint64(a.w-1))), r)
		}
		r = tt.BinBV(OLshr, a, cnt)
		return tt.Ite(big, tt.BV(a.w, 0), r)
	case token.LSS:
		if signed {
			return tt.Cmp(OSlt, a, b)
		}
		return tt.Cmp(OUlt, a, b)
	case token.LEQ:
		if signed {
			return tt.Cmp(OSle, a, b)
		}
		return tt.Cmp(OUle, a, b)
	case token.GTR:
		if signed {
			return tt.Cmp(OSlt, b, a)
		}
		return tt.Cmp(OUlt, b, a)
	case token.GEQ:
		if signed {
			return tt.Cmp(OSle, b, a)
		}
		return tt.Cmp(OUle, b, a)
	}
	ex.unsupported("binop %s", op)
	return nil
}

func (ex *Exec) conv(dst, src types.Type, x Value) Value {
	tt := ex.tt
	ud, us := dst.Underlying(), src.Underlying()
	// unsafe.Pointer <-> pointer: keep the value
	if b, ok := ud.(*types.Basic); ok && b.Kind() == types.UnsafePointer {
		return x
	}
	if b, ok := us.(*types.Basic); ok && b.Kind() == types.UnsafePointer {
		return x
	}
	switch ud := ud.(type) {
	case *types.Pointer:
		return x
	case *types.Slice:
		// string -> []byte
		if s, ok := x.(StrV); ok {
			eb, _ := ud.Elem().Underlying().(*types.Basic)
			if eb == nil || eb.Kind() != types.Uint8 {
				ex.unsupported("string to %s", dst)
			}
			bs := s.Bytes(tt)
			data := make([]Value, len(bs))
			for i, b := range bs {
				data[i] = b
			}
			return SliceV{data: data}
		}
		return x
	case *types.Basic:
		if ud.Info()&types.IsString != 0 {
			switch x := x.(type) {
			case StrV:
				return x
			case SliceV:
				bs := make([]*Term, len(x.data))
				for i, v := range x.data {
					bs[i] = v.(*Term)
				}
				return mkStr(tt, bs)
			case *Term:
				if x.IsConst() {
					return StrV{s: string(rune(x.sval()))}
				}
				ex.unsupported("string(symbolic rune)")
			}
		}
		t, ok := x.(*Term)
		if !ok {
			ex.unsupported("conversion %s -> %s of %T", src, dst, x)
		}
		sb := us.(*types.Basic)
		switch {
		case ud.Info()&types.IsInteger != 0 && sb.Info()&types.IsInteger != 0:
			w, _ := intWidth(ud)
			return ex.toWidth(t, src, w)
		case ud.Info()&types.IsFloat != 0 && sb.Info()&types.IsInteger != 0:
			_, signed := intWidth(sb)
			if ud.Kind() != types.Float64 && ud.Kind() != types.UntypedFloat {
				ex.unsupported("float32")
			}
			if signed {
				return tt.SToF(t)
			}
			return tt.UToF(t)
		case ud.Info()&types.IsFloat != 0 && sb.Info()&types.IsFloat != 0:
			return t
		case ud.Info()&types.IsInteger != 0 && sb.Info()&types.IsFloat != 0:
			return ex.floatToInt(t, ud)
		}
	}
	ex.unsupported("conversion %s -> %s", src, dst)
	return nil
}

// floatToInt models the amd64 behaviour of float64 -> integer conversion:
// in range: truncation toward zero; out of range / NaN / Inf: 0x8000000000000000
// for the 64-bit conversions (CVTTSD2SQ "integer indefinite"); uint64 of values
// in [2^63, 2^64) is exact (compiler emits the subtract-and-flip sequence).
// This is a platform assumption, listed in the evidence and confirmed by native replay.
func (ex *Exec) floatToInt(f *Term, ud *types.Basic) Value {
	tt := ex.tt
	w, signed := intWidth(ud)
	if f.IsConst() {
		x := math.Float64frombits(f.val)
		if signed {
			switch w {
			case 64:
				return tt.BV(64, uint64(int64(x)))
			case 32:
				return tt.BV(32, uint64(int32(x)))
			}
		} else {
			switch w {
			case 64:
				return tt.BV(64, uint64(x))
			case 32:
				return tt.BV(32, uint64(uint32(x)))
			}
		}
	}
	if w != 64 {
		ex.unsupported("symbolic float to %d-bit integer", w)
	}
	indefinite := tt.BV(64, 0x8000000000000000)
	if signed {
		lo := tt.FP(-9223372036854775808.0)
		hi := tt.FP(9223372036854775808.0)
		inRange := tt.BAnd(tt.FCmp(OFLe, lo, f), tt.FCmp(OFLt, f, hi))
		return tt.Ite(inRange, tt.FToBV(OFToS, f, 64), indefinite)
	}
	// unsigned 64: [0,2^63) -> cvttsd2sq; [2^63,2^64) -> exact; else indefinite-based garbage.
	// Go's amd64 lowering: if f < 2^63 { int64(f) } else { int64(f - 2^63) ^ 0x8000... }
	two63 := tt.FP(9223372036854775808.0)
	two64 := tt.FP(18446744073709551616.0)
	neg1 := tt.FP(-1.0)
	small := tt.BAnd(tt.FCmp(OFLt, neg1, f), tt.FCmp(OFLt, f, two63)) // (-1,2^63): truncation gives [0,2^63)
	mid := tt.BAnd(tt.FCmp(OFLe, two63, f), tt.FCmp(OFLt, f, two64))
	// negative <= -1: cvttsd2sq gives the negative integer (in range of int64) reinterpreted
	negIn := tt.BAnd(tt.FCmp(OFLe, tt.FP(-9223372036854775808.0), f), tt.FCmp(OFLe, f, neg1))
	res := tt.Ite(small, tt.FToBV(OFToU, f, 64),
		tt.Ite(mid, tt.FToBV(OFToU, f, 64),
			tt.Ite(negIn, tt.FToBV(OFToS, f, 64), indefinite)))
	return res
}

// ---- slices, indexing ----

func (ex *Exec) indexAddr(fr *frame, instr *ssa.IndexAddr) Value {
	x := fr.get(instr.X)
	switch x := x.(type) {
	case SliceV:
		if sp := ex.symIndex(fr, instr, x.data); sp != nil {
			return sp
		}
		i := ex.boundIndex(fr.term(instr.Index), instr.Index.Type(), len(x.data))
		return PtrV(&x.data[i])
	case PtrV:
		if x == nil {
			ex.goPanicStr("nil pointer dereference (index)")
		}
		a := (*x).(ArrayV)
		if sp := ex.symIndex(fr, instr, a); sp != nil {
			return sp
		}
		i := ex.boundIndex(fr.term(instr.Index), instr.Index.Type(), len(a))
		return PtrV(&a[i])
	}
	panic(fmt.Sprintf("IndexAddr on %T", x))
}

// symIndex: a symbolic index whose element pointer is only loaded from stays symbolic (merged load).
func (ex *Exec) symIndex(fr *frame, instr *ssa.IndexAddr, elems []Value) Value {
	idx := fr.term(instr.Index)
	if idx.IsConst() || len(elems) < 2 || len(elems) > 128 || ex.cfg.NoMerge || ex.speculative || !onlyLoaded(instr, 0) {
		return nil
	}
	i64 := ex.toWidth(idx, instr.Index.Type(), 64)
	if !ex.branch(ex.tt.Cmp(OUlt, i64, ex.tt.BV(64, uint64(len(elems))))) {
		ex.goPanicStr(fmt.Sprintf("index out of range [symbolic] with length %d", len(elems)))
	}
	return &SymPtrV{elems: elems, idx: i64}
}

func (ex *Exec) sliceBound(v ssa.Value, fr *frame, def int, max int, what string) int {
	if v == nil {
		return def
	}
	t := ex.toWidth(fr.term(v), v.Type(), 64)
	if t.IsConst() {
		if t.val > uint64(max) {
			ex.goPanicStr(fmt.Sprintf("slice bounds out of range [%s %d] with capacity %d", what, int64(t.val), max))
		}
		return int(t.val)
	}
	if !ex.branch(ex.tt.Cmp(OUle, t, ex.tt.BV(64, uint64(max)))) {
		ex.goPanicStr(fmt.Sprintf("slice bounds out of range [%s symbolic] with capacity %d", what, max))
	}
	return int(ex.concretizeRange(t, 0, uint64(max)))
}

func (ex *Exec) slice(fr *frame, instr *ssa.Slice) Value {
	x := fr.get(instr.X)
	switch x := x.(type) {
	case StrV:
		n := x.Len()
		hi := ex.sliceBound(instr.High, fr, n, n, "high")
		lo := ex.sliceBound(instr.Low, fr, 0, hi, "low")
		if x.sym == nil {
			return StrV{s: x.s[lo:hi]}
		}
		return mkStr(ex.tt, x.sym[lo:hi])
	case SliceV:
		c := cap(x.data)
		var max int
		if instr.Max != nil {
			max = ex.sliceBound(instr.Max, fr, c, c, "max")
		} else {
			max = c
		}
		hiDef := len(x.data)
		hi := ex.sliceBound(instr.High, fr, hiDef, max, "high")
		lo := ex.sliceBound(instr.Low, fr, 0, hi, "low")
		if x.nil_ && lo == 0 && hi == 0 {
			return SliceV{nil_: true}
		}
		return SliceV{data: x.data[lo:hi:max]}
	case PtrV:
		if x == nil {
			ex.goPanicStr("nil pointer dereference (slice of nil array pointer)")
		}
		a := []Value((*x).(ArrayV))
		c := len(a)
		max := c
		if instr.Max != nil {
			max = ex.sliceBound(instr.Max, fr, c, c, "max")
		}
		hi := ex.sliceBound(instr.High, fr, c, max, "high")
		lo := ex.sliceBound(instr.Low, fr, 0, hi, "low")
		return SliceV{data: a[lo:hi:max]}
	}
	panic(fmt.Sprintf("Slice on %T", x))
}

// ---- type assertions ----

func (ex *Exec) typeAssert(instr *ssa.TypeAssert, x Value) Value {
	iv, ok := x.(IfaceV)
	if !ok {
		panic(fmt.Sprintf("TypeAssert on %T", x))
	}
	var okRes bool
	var v Value
	if iv.t != nil {
		if it, isI := instr.AssertedType.Underlying().(*types.Interface); isI {
			if iv.t == ex.opaqueErr || iv.t == ex.rtErrType {
				okRes = it.NumMethods() == 0 || (it.NumMethods() == 1 && it.Method(0).Name() == "Error")
			} else {
				okRes = types.Implements(iv.t, it)
			}
			v = iv
		} else {
			okRes = types.Identical(iv.t, instr.AssertedType)
			v = copyVal(iv.v)
		}
	}
	if instr.CommaOk {
		if !okRes {
			v = ex.zero(instr.AssertedType)
		}
		return TupleV{v, ex.tt.Bool(okRes)}
	}
	if !okRes {
		ex.goPanicStr(fmt.Sprintf("interface conversion: %v is not %s", iv.t, instr.AssertedType))
	}
	return v
}

// ---- builtins ----

func (ex *Exec) callBuiltin(fr *frame, b *ssa.Builtin, args []Value) Value {
	tt := ex.tt
	switch b.Name() {
	case "len":
		switch x := args[0].(type) {
		case StrV:
			return tt.BV(64, uint64(x.Len()))
		case SliceV:
			return tt.BV(64, uint64(len(x.data)))
		case ArrayV:
			return tt.BV(64, uint64(len(x)))
		case PtrV:
			return tt.BV(64, uint64(len((*x).(ArrayV))))
		case *MapV:
			return ex.mapLen(x)
		case *ChanV:
			if x == nil {
				return tt.BV(64, 0)
			}
			return tt.BV(64, uint64(len(x.buf)))
		}
	case "cap":
		switch x := args[0].(type) {
		case SliceV:
			return tt.BV(64, uint64(cap(x.data)))
		case ArrayV:
			return tt.BV(64, uint64(len(x)))
		case PtrV:
			return tt.BV(64, uint64(len((*x).(ArrayV))))
		case *ChanV:
			if x == nil {
				return tt.BV(64, 0)
			}
			return tt.BV(64, uint64(x.cap))
		}
	case "append":
		dst := args[0].(SliceV)
		var add []Value
		switch s := args[1].(type) {
		case SliceV:
			add = s.data
		case StrV:
			for _, t := range s.Bytes(tt) {
				add = append(add, t)
			}
		}
		if len(add) == 0 {
			return dst
		}
		n := len(dst.data)
		if n+len(add) <= cap(dst.data) {
			nd := dst.data[:n+len(add)]
			for i, v := range add {
				nd[n+i] = copyVal(v)
			}
			return SliceV{data: nd}
		}
		// grow: fresh backing store (capacity rule: double, as runtime for small slices)
		nc := 2 * cap(dst.data)
		if nc < n+len(add) {
			nc = n + len(add)
		}
		nd := make([]Value, n+len(add), nc)
		for i := 0; i < n; i++ {
			nd[i] = copyVal(dst.data[i])
		}
		for i, v := range add {
			nd[n+i] = copyVal(v)
		}
		// cells beyond len need zero values when re-sliced; fill lazily with nil -> we fill with copies of first elem's zero
		if nc > len(nd) {
			full := nd[:nc]
			var z Value
			if len(nd) > 0 {
				z = zeroLike(ex, nd[0])
			}
			for i := len(nd); i < nc; i++ {
				full[i] = copyVal(z)
			}
		}
		return SliceV{data: nd}
	case "copy":
		dst := args[0].(SliceV)
		var src []Value
		switch s := args[1].(type) {
		case SliceV:
			src = s.data
		case StrV:
			for _, t := range s.Bytes(tt) {
				src = append(src, t)
			}
		}
		n := len(dst.data)
		if len(src) < n {
			n = len(src)
		}
		tmp := make([]Value, n)
		for i := 0; i < n; i++ {
			tmp[i] = copyVal(src[i])
		}
		for i := 0; i < n; i++ {
			dst.data[i] = tmp[i]
		}
		return tt.BV(64, uint64(n))
	case "delete":
		m := args[0].(*MapV)
		if m != nil {
			ex.mapDelete(m, args[1])
		}
		return nil
	case "close":
		c := args[0].(*ChanV)
		if c == nil {
			ex.goPanicStr("close of nil channel")
		}
		if c.closed {
			ex.goPanicStr("close of closed channel")
		}
		c.closed = true
		return nil
	case "panic":
		panic(goPanic{args[0]})
	case "recover":
		return ex.doRecover(fr)
	case "print", "println":
		return nil
	case "min", "max":
		ex.unsupported("min/max builtin")
	case "ssa:wrapnilchk":
		recv := args[0]
		if isNilValue(recv) {
			ex.goPanicStr("value method called using nil pointer")
		}
		return recv
	}
	ex.unsupported("builtin %s on %T", b.Name(), args)
	return nil
}

func zeroLike(ex *Exec, v Value) Value {
	switch v := v.(type) {
	case *Term:
		switch v.kind {
		case KBool:
			return ex.tt.False
		case KFP:
			return ex.tt.FP(0)
		}
		return ex.tt.BV(v.w, 0)
	case StrV:
		return StrV{}
	case PtrV:
		return PtrV(nil)
	case StructV:
		c := make(StructV, len(v))
		for i := range v {
			c[i] = zeroLike(ex, v[i])
		}
		return c
	case ArrayV:
		c := make(ArrayV, len(v))
		for i := range v {
			c[i] = zeroLike(ex, v[i])
		}
		return c
	case SliceV:
		return SliceV{nil_: true}
	case IfaceV:
		return IfaceV{}
	case *MapV:
		return (*MapV)(nil)
	case *ChanV:
		return (*ChanV)(nil)
	case *ClosureV:
		return (*ClosureV)(nil)
	}
	return nil
}

func (ex *Exec) doRecover(fr *frame) Value {
	// fr is the deferred function's frame; its caller is the panicking frame.
	if fr != nil && fr.caller != nil && fr.caller.panicking {
		gp, ok := fr.caller.panicVal.(goPanic)
		if ok {
			fr.caller.panicking = false
			fr.caller.panicVal = nil
			if iv, ok := gp.val.(IfaceV); ok {
				return iv
			}
			return IfaceV{t: ex.rtErrType, v: OpaqueV{"panic"}}
		}
	}
	return IfaceV{}
}

func debugf(format string, args ...interface{}) {
	if os.Getenv("GOSYM_DEBUG") != "" {
		fmt.Fprintf(os.Stderr, format+"\n", args...)
	}
}
