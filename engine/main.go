package main

import (
	"encoding/json"
	"flag"
	"fmt"
	"os"
	"strconv"
	"strings"
)

func main() {
	if len(os.Args) < 2 {
		fmt.Fprintln(os.Stderr, "usage: gosym run|check ...")
		os.Exit(2)
	}
	switch os.Args[1] {
	case "run":
		cmdRun(os.Args[2:])
	case "check":
		cmdCheck(os.Args[2:])
	default:
		fmt.Fprintln(os.Stderr, "unknown command")
		os.Exit(2)
	}
}

func cmdRun(args []string) {
	fs := flag.NewFlagSet("run", flag.ExitOnError)
	repo := fs.String("repo", "/repo", "repository")
	hd := fs.String("harness-dir", "/verif/harness", "harness sources")
	pkg := fs.String("pkg", "", "package path (relative to module or full)")
	h := fs.String("harness", "", "harness function")
	params := fs.String("params", "", "k=v,k=v")
	workers := fs.Int("workers", 16, "workers")
	direct := fs.Bool("direct", false, "send assertion queries directly to the portfolio")
	solvers := fs.String("solvers", "", "portfolio solver names")
	maxPaths := fs.Int("max-paths", 0, "path budget")
	fs.Parse(args)
	eng, err := LoadEngine(*repo, *hd)
	if err != nil {
		fmt.Fprintln(os.Stderr, err)
		os.Exit(2)
	}
	cfg := &RunConfig{Name: *h, Pkg: fullPkg(*pkg), Harness: *h, Params: map[string]int{}, Workers: *workers, Direct: *direct, MaxPaths: *maxPaths}
	if *solvers != "" {
		cfg.AssertSolvers = strings.Split(*solvers, ",")
	}
	for _, kv := range strings.Split(*params, ",") {
		if kv == "" {
			continue
		}
		p := strings.SplitN(kv, "=", 2)
		n, _ := strconv.Atoi(p[1])
		cfg.Params[p[0]] = n
	}
	rep := eng.Explore(cfg)
	b, _ := json.MarshalIndent(rep, "", " ")
	fmt.Println(string(b))
	fmt.Fprintf(os.Stderr, "load %.1fs explore %.1fs paths=%d status=%v problems=%d\n", eng.loadSeconds, rep.WallS, rep.Paths, rep.Status, len(rep.Problems))
}

func fullPkg(p string) string {
	if strings.HasPrefix(p, "github.com/") {
		return p
	}
	if p == "" || p == "." {
		return repoPkg
	}
	return repoPkg + "/" + p
}

