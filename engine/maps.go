package main

// Maps (association lists with symbolic keys), range iterators, channels, select.

import (
	"fmt"
	"go/types"

	"golang.org/x/tools/go/ssa"
)

// Representation invariant of MapV: the keys of the live entries are pairwise
// different under the path condition. Lookups with a symbolic key fork on
// aliasing with each live entry (in insertion order).

func isScalarType(t types.Type) bool {
	b, ok := t.Underlying().(*types.Basic)
	return ok && b.Info()&(types.IsBoolean|types.IsInteger|types.IsFloat) != 0
}

func (m *MapV) merged() bool { return isScalarType(m.elemT) }

// mapFind (fork mode): returns the live entry whose key equals key, forking on aliasing.
func (ex *Exec) mapFind(m *MapV, key Value) *mapEntry {
	if m == nil {
		return nil
	}
	for _, e := range m.entries {
		if e.present.IsFalse() {
			continue
		}
		c := ex.tt.BAnd(e.present, ex.equals(e.key, key))
		if c.IsFalse() {
			continue
		}
		if ex.branch(c) {
			return e
		}
	}
	return nil
}

func (ex *Exec) mapUpdate(m *MapV, key, val Value) {
	tt := ex.tt
	if m.merged() {
		// merged mode: no forking; values become ite-terms
		hit := tt.False
		v := val.(*Term)
		for _, e := range m.entries {
			if e.present.IsFalse() {
				continue
			}
			c := tt.BAnd(e.present, ex.equals(e.key, key))
			if c.IsFalse() {
				continue
			}
			e.val = tt.Ite(c, v, e.val.(*Term))
			hit = tt.BOr(hit, c)
		}
		if !hit.IsTrue() {
			m.entries = append(m.entries, &mapEntry{key: copyVal(key), val: v, present: tt.BNot(hit)})
		}
		return
	}
	if e := ex.mapFind(m, key); e != nil {
		e.val = val
		return
	}
	m.entries = append(m.entries, &mapEntry{key: copyVal(key), val: val, present: tt.True})
}

func (ex *Exec) mapDelete(m *MapV, key Value) {
	tt := ex.tt
	if m.merged() {
		for _, e := range m.entries {
			if e.present.IsFalse() {
				continue
			}
			e.present = tt.BAnd(e.present, tt.BNot(ex.equals(e.key, key)))
		}
		return
	}
	if e := ex.mapFind(m, key); e != nil {
		e.present = tt.False
	}
}

func (ex *Exec) mapLen(m *MapV) *Term {
	tt := ex.tt
	n := tt.BV(64, 0)
	if m != nil {
		for _, e := range m.entries {
			n = tt.BinBV(OAdd, n, tt.Ite(e.present, tt.BV(64, 1), tt.BV(64, 0)))
		}
	}
	return n
}

// mapGet returns (value, ok) without forking in merged mode.
func (ex *Exec) mapGet(m *MapV, key Value, elemT types.Type) (Value, *Term) {
	tt := ex.tt
	if m != nil && m.merged() {
		v := ex.zero(elemT).(*Term)
		ok := tt.False
		for _, e := range m.entries {
			if e.present.IsFalse() {
				continue
			}
			c := tt.BAnd(e.present, ex.equals(e.key, key))
			if c.IsFalse() {
				continue
			}
			v = tt.Ite(c, e.val.(*Term), v)
			ok = tt.BOr(ok, c)
		}
		return v, ok
	}
	if e := ex.mapFind(m, key); e != nil {
		return copyVal(e.val), tt.True
	}
	return ex.zero(elemT), tt.False
}

func (ex *Exec) lookup(fr *frame, instr *ssa.Lookup) Value {
	x := fr.get(instr.X)
	switch x := x.(type) {
	case StrV:
		i := ex.boundIndex(fr.term(instr.Index), instr.Index.Type(), x.Len())
		return x.Bytes(ex.tt)[i]
	case *MapV:
		v, ok := ex.mapGet(x, fr.get(instr.Index), instr.X.Type().Underlying().(*types.Map).Elem())
		if instr.CommaOk {
			return TupleV{v, ok}
		}
		return v
	}
	panic(fmt.Sprintf("Lookup on %T", x))
}

// ---- range ----

type iterV struct {
	m    *MapV
	snap []*mapEntry
	str  StrV
	i    int
}

func (ex *Exec) rangeIter(x Value) Value {
	switch x := x.(type) {
	case *MapV:
		it := &iterV{m: x}
		if x != nil {
			it.snap = append(it.snap, x.entries...)
			// map iteration order is unspecified: the run configuration may rotate it
			if r := ex.cfg.MapRotate; r > 0 && len(it.snap) > 1 {
				k := r % len(it.snap)
				it.snap = append(append([]*mapEntry{}, it.snap[k:]...), it.snap[:k]...)
			}
			if ex.cfg.MapReverse {
				for i, j := 0, len(it.snap)-1; i < j; i, j = i+1, j-1 {
					it.snap[i], it.snap[j] = it.snap[j], it.snap[i]
				}
			}
		}
		return it
	case StrV:
		if !x.IsConcrete() {
			ex.unsupported("range over symbolic string")
		}
		return &iterV{str: x}
	}
	panic(fmt.Sprintf("range over %T", x))
}

func (ex *Exec) iterNext(it *iterV, instr *ssa.Next) Value {
	tt := ex.tt
	if instr.IsString {
		s := it.str.Concrete()
		if it.i >= len(s) {
			return TupleV{tt.False, tt.BV(64, 0), tt.BV(32, 0)}
		}
		for i, r := range s[it.i:] {
			_ = i
			idx := it.i
			it.i += len(string(r))
			return TupleV{tt.True, tt.BV(64, uint64(idx)), tt.BV(32, uint64(r))}
		}
	}
	for it.i < len(it.snap) {
		e := it.snap[it.i]
		it.i++
		if e.present.IsFalse() || !ex.branch(e.present) {
			continue
		}
		return TupleV{tt.True, copyVal(e.key), copyVal(e.val)}
	}
	tup := instr.Type().(*types.Tuple)
	var k, v Value
	if it.m != nil {
		k, v = ex.zero(it.m.keyT), ex.zero(it.m.elemT)
	} else {
		k, v = ex.zeroOrNil(tup.At(1).Type()), ex.zeroOrNil(tup.At(2).Type())
	}
	return TupleV{tt.False, k, v}
}

func (ex *Exec) zeroOrNil(t types.Type) Value {
	if b, ok := t.(*types.Basic); ok && b.Kind() == types.Invalid {
		return nil
	}
	return ex.zero(t)
}

// ---- channels ----

// Single interpreted thread: the harness plays the other goroutines by
// registering offers (values an external sender is blocked on) and takers
// (external receivers blocked on the channel).

func (ex *Exec) chanSend(c *ChanV, v Value) {
	if c == nil {
		panic(blockSignal{"send on nil channel"})
	}
	if c.closed {
		ex.goPanicStr("send on closed channel")
	}
	if len(c.takerFns) > 0 && len(c.buf) == 0 {
		f := c.takerFns[0]
		c.takerFns = c.takerFns[1:]
		c.taken = append(c.taken, v)
		ex.call(nil, f, []Value{IfaceV{t: c.elemT, v: v}}, 0)
		return
	}
	if c.takers > 0 && len(c.buf) == 0 {
		c.takers--
		c.taken = append(c.taken, v)
		return
	}
	if len(c.buf) < c.cap {
		c.buf = append(c.buf, v)
		return
	}
	panic(blockSignal{"send"})
}

func (ex *Exec) chanCanSend(c *ChanV) bool {
	if c == nil {
		return false
	}
	return c.closed || c.takers > 0 || len(c.takerFns) > 0 || len(c.buf) < c.cap
}

func (ex *Exec) chanCanRecv(c *ChanV) bool {
	if c == nil {
		return false
	}
	if c.ctx != nil && c.ctx.isCancelled() {
		return true
	}
	return len(c.buf) > 0 || c.offerReady() || c.closed
}

// offerReady: the first pending external sender is ready (its precondition channel has been drained).
func (c *ChanV) offerReady() bool {
	if len(c.offers) == 0 {
		return false
	}
	if len(c.offerAfter) > 0 && c.offerAfter[0] != nil && len(c.offerAfter[0].offers) > 0 {
		return false
	}
	return true
}

func (c *CtxV) isCancelled() bool {
	for x := c; x != nil; x = x.parent {
		if x.cancelled {
			return true
		}
	}
	return false
}

func (ex *Exec) chanRecv(c *ChanV) (Value, bool) {
	if c == nil {
		panic(blockSignal{"recv on nil channel"})
	}
	if len(c.buf) > 0 {
		v := c.buf[0]
		c.buf = c.buf[1:]
		return v, true
	}
	if c.offerReady() {
		v := c.offers[0]
		c.offers = c.offers[1:]
		if len(c.offerAfter) > 0 {
			c.offerAfter = c.offerAfter[1:]
		}
		return v, true
	}
	if c.closed || (c.ctx != nil && c.ctx.isCancelled()) {
		return ex.zero(c.elemT), false
	}
	if c.ctx != nil && c.ctx.timeout {
		c.ctx.cancelled = true // the deadline passes while we wait
		return ex.zero(c.elemT), false
	}
	if c.ctx != nil && c.ctx.idleCancellable() {
		c.ctx.cancelIdle()
		return ex.zero(c.elemT), false
	}
	panic(blockSignal{"recv"})
}

func (c *CtxV) idleCancellable() bool {
	for x := c; x != nil; x = x.parent {
		if x.whenIdle {
			return true
		}
	}
	return false
}

func (c *CtxV) cancelIdle() {
	for x := c; x != nil; x = x.parent {
		if x.whenIdle {
			x.cancelled = true
		}
	}
}

func (ex *Exec) selectStmt(fr *frame, instr *ssa.Select) Value {
	tt := ex.tt
	type st struct {
		ch   *ChanV
		send Value
		dir  types.ChanDir
	}
	var states []st
	var ready []int
	for i, s := range instr.States {
		c, _ := fr.get(s.Chan).(*ChanV)
		x := st{ch: c, dir: s.Dir}
		if s.Dir == types.SendOnly {
			x.send = fr.get(s.Send)
			if ex.chanCanSend(c) {
				ready = append(ready, i)
			}
		} else if ex.chanCanRecv(c) {
			ready = append(ready, i)
		}
		states = append(states, x)
	}
	chosen := -1
	if len(ready) == 0 {
		if !instr.Blocking {
			chosen = -1
		} else {
			// nothing ready: contexts cancelled "when idle" fire now
			for i, s := range states {
				if s.dir != types.SendOnly && s.ch != nil && s.ch.ctx != nil && s.ch.ctx.idleCancellable() {
					s.ch.ctx.cancelIdle()
					chosen = i
					break
				}
			}
			if chosen < 0 {
				panic(blockSignal{"select"})
			}
		}
	} else if len(ready) == 1 {
		chosen = ready[0]
	} else {
		// the runtime picks uniformly among ready cases: nondeterministic choice
		name := fmt.Sprintf("select_%s", instr.Parent().Name())
		k := ex.nondetTerm(name, 8)
		ex.addPC(tt.Cmp(OUlt, k, tt.BV(8, uint64(len(ready)))))
		idx := ex.concretizeRange(k, 0, uint64(len(ready)-1))
		chosen = ready[idx]
	}
	// result tuple: (index, recvOk, recv_0, ..., recv_n-1)
	res := TupleV{tt.BV(64, uint64(int64(chosen))), tt.False}
	var recvVals []Value
	for i, s := range instr.States {
		if s.Dir == types.RecvOnly {
			var v Value
			if i == chosen {
				rv, ok := ex.chanRecv(states[i].ch)
				v = rv
				res[1] = tt.Bool(ok)
			} else {
				v = ex.zero(s.Chan.Type().Underlying().(*types.Chan).Elem())
			}
			recvVals = append(recvVals, v)
		} else if i == chosen {
			ex.chanSend(states[i].ch, states[i].send)
		}
	}
	res = append(res, recvVals...)
	return res
}
