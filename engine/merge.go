package main

// If-conversion: a symbolic branch whose arms are small side-effect-free blocks that
// rejoin immediately (triangles / diamonds, e.g. `a && b`, `if c { sum += w }`) is
// evaluated on both arms and merged with ite-terms instead of forking the path.

import (
	"go/token"
	"go/types"

	"golang.org/x/tools/go/ssa"
)

type mergeFail struct{ why string }

func pureInstr(ex *Exec, in ssa.Instruction) bool {
	switch in := in.(type) {
	case *ssa.DebugRef, *ssa.Phi, *ssa.ChangeType, *ssa.ChangeInterface, *ssa.Extract, *ssa.Field,
		*ssa.FieldAddr, *ssa.IndexAddr, *ssa.Index, *ssa.Slice, *ssa.MakeInterface, *ssa.Convert, *ssa.Lookup, *ssa.Jump:
		return true
	case *ssa.BinOp:
		switch in.Op {
		case token.QUO, token.REM:
			return false
		}
		return true
	case *ssa.UnOp:
		return in.Op != token.ARROW
	case *ssa.Call:
		if in.Call.Method != nil {
			return false
		}
		fn, ok := in.Call.Value.(*ssa.Function)
		if !ok {
			return false
		}
		return ex.eng.pureFn(fn)
	}
	return false
}

func (eng *Engine) pureFn(fn *ssa.Function) bool {
	name := fn.String()
	if eng.pureNames[name] {
		return true
	}
	if v, ok := eng.pureCache.Load(fn); ok {
		return v.(bool)
	}
	// small single-block functions made only of pure instructions (getters such as HeightView.Height)
	res := false
	if len(fn.Blocks) == 1 && len(fn.Blocks[0].Instrs) <= 12 && fn.Recover == nil {
		res = true
		eng.pureCache.Store(fn, false) // recursion guard
		for _, in := range fn.Blocks[0].Instrs {
			switch in := in.(type) {
			case *ssa.Return:
			case *ssa.Call:
				callee, ok := in.Call.Value.(*ssa.Function)
				if in.Call.Method != nil || !ok || !eng.pureFn(callee) {
					res = false
				}
			case *ssa.Jump:
				res = false
			default:
				if !pureInstrNoCall(in) {
					res = false
				}
			}
		}
	}
	eng.pureCache.Store(fn, res)
	return res
}

func pureInstrNoCall(in ssa.Instruction) bool {
	switch in := in.(type) {
	case *ssa.DebugRef, *ssa.ChangeType, *ssa.ChangeInterface, *ssa.Extract, *ssa.Field,
		*ssa.FieldAddr, *ssa.IndexAddr, *ssa.Index, *ssa.Slice, *ssa.MakeInterface, *ssa.Convert:
		return true
	case *ssa.BinOp:
		return in.Op != token.QUO && in.Op != token.REM
	case *ssa.UnOp:
		return in.Op != token.ARROW
	}
	return false
}

func pureBlock(ex *Exec, b *ssa.BasicBlock) bool {
	if len(b.Instrs) > 40 {
		return false
	}
	for _, in := range b.Instrs {
		if !pureInstr(ex, in) {
			return false
		}
	}
	_, ok := b.Instrs[len(b.Instrs)-1].(*ssa.Jump)
	return ok
}

// postDominators computes the immediate post-dominator of every block of fn (nil = the virtual exit).
func postDominators(fn *ssa.Function) map[*ssa.BasicBlock]*ssa.BasicBlock {
	n := len(fn.Blocks)
	// pdom sets as bitsets over block indices, plus a virtual exit with index n
	full := make([]bool, n+1)
	for i := range full {
		full[i] = true
	}
	pd := make([][]bool, n+1)
	for i := 0; i <= n; i++ {
		pd[i] = append([]bool{}, full...)
	}
	exit := make([]bool, n+1)
	exit[n] = true
	pd[n] = exit
	succs := func(b *ssa.BasicBlock) []int {
		if len(b.Succs) == 0 {
			return []int{n}
		}
		var out []int
		for _, s := range b.Succs {
			out = append(out, s.Index)
		}
		return out
	}
	for changed := true; changed; {
		changed = false
		for i := n - 1; i >= 0; i-- {
			b := fn.Blocks[i]
			nw := append([]bool{}, full...)
			for _, s := range succs(b) {
				for k := range nw {
					nw[k] = nw[k] && pd[s][k]
				}
			}
			nw[i] = true
			for k := range nw {
				if nw[k] != pd[i][k] {
					changed = true
				}
			}
			pd[i] = nw
		}
	}
	res := map[*ssa.BasicBlock]*ssa.BasicBlock{}
	for i, b := range fn.Blocks {
		// immediate post-dominator: the strict post-dominator that is post-dominated by all other strict ones
		var best *ssa.BasicBlock
		bestCount := -1
		for k := 0; k < n; k++ {
			if k == i || !pd[i][k] {
				continue
			}
			cnt := 0
			for j := 0; j <= n; j++ {
				if pd[k][j] {
					cnt++
				}
			}
			if cnt > bestCount { // the closest one has the largest post-dominator set
				bestCount = cnt
				best = fn.Blocks[k]
			}
		}
		res[b] = best
	}
	return res
}

func (eng *Engine) ipdom(b *ssa.BasicBlock) *ssa.BasicBlock {
	fn := b.Parent()
	v, ok := eng.pdomCache.Load(fn)
	if !ok {
		v = postDominators(fn)
		eng.pdomCache.Store(fn, v)
	}
	return v.(map[*ssa.BasicBlock]*ssa.BasicBlock)[b]
}

func pureRegionBlock(ex *Exec, b *ssa.BasicBlock) bool {
	if len(b.Instrs) > 40 {
		return false
	}
	for i, in := range b.Instrs {
		if i == len(b.Instrs)-1 {
			switch in.(type) {
			case *ssa.Jump, *ssa.If:
				continue
			}
			return false
		}
		if !pureInstr(ex, in) {
			return false
		}
	}
	return true
}

// tryMerge handles `if c` at the end of block b by if-converting the acyclic, side-effect-free,
// single-entry region between b and its immediate post-dominator J: every block of the region is evaluated
// under a guard term, phis are merged by the guards of their incoming edges. Returns true if control has
// been moved to J.
func (ex *Exec) tryMerge(fr *frame, instr *ssa.If, c *Term) bool {
	if ex.speculative {
		panic(mergeFail{"nested symbolic branch"})
	}
	tt := ex.tt
	b := instr.Block()
	J := ex.eng.ipdom(b)
	if J == nil || J == b {
		return false
	}
	// collect the region in topological order (DFS post-order reversed), bounded
	region := map[*ssa.BasicBlock]bool{}
	var order []*ssa.BasicBlock
	state := map[*ssa.BasicBlock]int{} // 1 = on stack, 2 = done
	okRegion := true
	var dfs func(x *ssa.BasicBlock)
	dfs = func(x *ssa.BasicBlock) {
		if !okRegion || x == J {
			return
		}
		if x == b || state[x] == 1 {
			okRegion = false // cycle
			return
		}
		if state[x] == 2 {
			return
		}
		state[x] = 1
		region[x] = true
		if len(region) > 10 || !pureRegionBlock(ex, x) {
			okRegion = false
			return
		}
		for _, s := range x.Succs {
			dfs(s)
		}
		state[x] = 2
		order = append(order, x)
	}
	for _, s := range b.Succs {
		dfs(s)
	}
	if !okRegion {
		return false
	}
	for x := range region { // single entry: every predecessor is b or in the region
		for _, p := range x.Preds {
			if p != b && !region[p] {
				return false
			}
		}
	}
	for i, j := 0, len(order)-1; i < j; i, j = i+1, j-1 {
		order[i], order[j] = order[j], order[i]
	}
	type edge struct{ from, to *ssa.BasicBlock }
	eguard := map[edge]*Term{}
	addEdge := func(from, to *ssa.BasicBlock, g *Term) {
		e := edge{from, to}
		if old, ok := eguard[e]; ok {
			g = tt.BOr(old, g)
		}
		eguard[e] = g
	}
	addEdge(b, b.Succs[0], c)
	addEdge(b, b.Succs[1], tt.BNot(c))
	mergePhi := func(phi *ssa.Phi, blk *ssa.BasicBlock) (Value, bool) {
		var res Value
		have := false
		for i, p := range blk.Preds {
			g, ok := eguard[edge{p, blk}]
			if !ok || g.IsFalse() {
				continue
			}
			v := fr.get(phi.Edges[i])
			if !have {
				res, have = v, true
				continue
			}
			rt, ok1 := res.(*Term)
			vt, ok2 := v.(*Term)
			if ok1 && ok2 && rt.kind == vt.kind && rt.w == vt.w {
				res = tt.Ite(g, vt, rt)
				continue
			}
			if sameValue(res, v) {
				continue
			}
			return nil, false
		}
		return res, have
	}
	ok := func() (ok bool) {
		ex.speculative = true
		savedPrev, savedBlock := fr.prev, fr.block
		defer func() {
			ex.speculative = false
			fr.prev, fr.block = savedPrev, savedBlock
			if r := recover(); r != nil {
				switch r.(type) {
				case mergeFail, goPanic:
					ok = false
				default:
					panic(r)
				}
			}
		}()
		for _, x := range order {
			g := tt.False
			for _, p := range x.Preds {
				if eg, ok := eguard[edge{p, x}]; ok {
					g = tt.BOr(g, eg)
				}
			}
			if g.IsFalse() {
				continue // not reachable on this path: do not evaluate (its instructions may be guarded by the branch)
			}
			fr.block = x
			for _, in := range x.Instrs {
				switch in := in.(type) {
				case *ssa.Phi:
					v, ok := mergePhi(in, x)
					if !ok {
						panic(mergeFail{"phi not mergeable"})
					}
					fr.env[in] = v
				case *ssa.Jump:
					addEdge(x, x.Succs[0], g)
				case *ssa.If:
					ic := fr.term(in.Cond)
					addEdge(x, x.Succs[0], tt.BAnd(g, ic))
					addEdge(x, x.Succs[1], tt.BAnd(g, tt.BNot(ic)))
				default:
					ex.visit(fr, in)
				}
			}
		}
		return true
	}()
	if !ok {
		return false
	}
	over := map[*ssa.Phi]Value{}
	var pred *ssa.BasicBlock
	for _, p := range J.Preds {
		if g, ok := eguard[edge{p, J}]; ok && !g.IsFalse() {
			pred = p
		}
	}
	if pred == nil {
		return false
	}
	for _, in := range J.Instrs {
		phi, isPhi := in.(*ssa.Phi)
		if !isPhi {
			break
		}
		v, ok := mergePhi(phi, J)
		if !ok {
			return false
		}
		over[phi] = v
	}
	fr.phiOverride = over
	fr.prev, fr.block = pred, J
	ex.merges++
	return true
}

func sameValue(a, b Value) bool {
	switch x := a.(type) {
	case PtrV:
		y, ok := b.(PtrV)
		return ok && x == y
	case *MapV:
		y, ok := b.(*MapV)
		return ok && x == y
	case *ChanV:
		y, ok := b.(*ChanV)
		return ok && x == y
	case StrV:
		y, ok := b.(StrV)
		return ok && x.sym == nil && y.sym == nil && x.s == y.s
	case IfaceV:
		y, ok := b.(IfaceV)
		if !ok {
			return false
		}
		if x.t == nil || y.t == nil {
			return x.t == nil && y.t == nil
		}
		return types.Identical(x.t, y.t) && sameValue(x.v, y.v)
	case *Term:
		y, ok := b.(*Term)
		return ok && x == y
	}
	return false
}
