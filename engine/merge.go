package main

// If-conversion: a symbolic branch whose arms are small side-effect-free blocks that
// rejoin immediately (triangles / diamonds, e.g. `a && b`, `if c { sum += w }`) is
// evaluated on both arms and merged with ite-terms instead of forking the path.

import (
	"go/token"
	"go/types"

	"golang.org/x/tools/go/ssa"
)

type mergeFail struct{ why string }

func pureInstr(ex *Exec, in ssa.Instruction) bool {
	switch in := in.(type) {
	case *ssa.DebugRef, *ssa.Phi, *ssa.ChangeType, *ssa.ChangeInterface, *ssa.Extract, *ssa.Field,
		*ssa.FieldAddr, *ssa.IndexAddr, *ssa.Index, *ssa.Slice, *ssa.MakeInterface, *ssa.Convert, *ssa.Lookup, *ssa.Jump:
		return true
	case *ssa.BinOp:
		switch in.Op {
		case token.QUO, token.REM:
			return false
		}
		return true
	case *ssa.UnOp:
		return in.Op != token.ARROW
	case *ssa.Call:
		if in.Call.Method != nil {
			return false
		}
		fn, ok := in.Call.Value.(*ssa.Function)
		if !ok {
			return false
		}
		return ex.eng.pureFn(fn)
	}
	return false
}

func (eng *Engine) pureFn(fn *ssa.Function) bool {
	name := fn.String()
	if eng.pureNames[name] {
		return true
	}
	if v, ok := eng.pureCache.Load(fn); ok {
		return v.(bool)
	}
	// small single-block functions made only of pure instructions (getters such as HeightView.Height)
	res := false
	if len(fn.Blocks) == 1 && len(fn.Blocks[0].Instrs) <= 12 && fn.Recover == nil {
		res = true
		eng.pureCache.Store(fn, false) // recursion guard
		for _, in := range fn.Blocks[0].Instrs {
			switch in := in.(type) {
			case *ssa.Return:
			case *ssa.Call:
				callee, ok := in.Call.Value.(*ssa.Function)
				if in.Call.Method != nil || !ok || !eng.pureFn(callee) {
					res = false
				}
			case *ssa.Jump:
				res = false
			default:
				if !pureInstrNoCall(in) {
					res = false
				}
			}
		}
	}
	eng.pureCache.Store(fn, res)
	return res
}

func pureInstrNoCall(in ssa.Instruction) bool {
	switch in := in.(type) {
	case *ssa.DebugRef, *ssa.ChangeType, *ssa.ChangeInterface, *ssa.Extract, *ssa.Field,
		*ssa.FieldAddr, *ssa.IndexAddr, *ssa.Index, *ssa.Slice, *ssa.MakeInterface, *ssa.Convert:
		return true
	case *ssa.BinOp:
		return in.Op != token.QUO && in.Op != token.REM
	case *ssa.UnOp:
		return in.Op != token.ARROW
	}
	return false
}

func pureBlock(ex *Exec, b *ssa.BasicBlock) bool {
	if len(b.Instrs) > 40 {
		return false
	}
	for _, in := range b.Instrs {
		if !pureInstr(ex, in) {
			return false
		}
	}
	_, ok := b.Instrs[len(b.Instrs)-1].(*ssa.Jump)
	return ok
}

// tryMerge handles `if c` at the end of block b. Returns true if control has been moved to the join block.
func (ex *Exec) tryMerge(fr *frame, instr *ssa.If, c *Term) bool {
	if ex.speculative {
		panic(mergeFail{"nested symbolic branch"})
	}
	b := instr.Block()
	T, E := b.Succs[0], b.Succs[1]
	var join *ssa.BasicBlock
	var arms []*ssa.BasicBlock // executed arms
	switch {
	case len(T.Preds) == 1 && len(E.Preds) == 1 && len(T.Succs) == 1 && len(E.Succs) == 1 && T.Succs[0] == E.Succs[0] && T != E:
		join = T.Succs[0]
		arms = []*ssa.BasicBlock{T, E}
	case len(T.Preds) == 1 && len(T.Succs) == 1 && T.Succs[0] == E:
		join = E
		arms = []*ssa.BasicBlock{T}
	case len(E.Preds) == 1 && len(E.Succs) == 1 && E.Succs[0] == T:
		join = T
		arms = []*ssa.BasicBlock{E}
	default:
		return false
	}
	if join == b {
		return false
	}
	for _, a := range arms {
		if !pureBlock(ex, a) {
			return false
		}
	}
	// speculative execution of the arms
	ok := func() (ok bool) {
		ex.speculative = true
		savedPrev, savedBlock := fr.prev, fr.block
		defer func() {
			ex.speculative = false
			fr.prev, fr.block = savedPrev, savedBlock
			if r := recover(); r != nil {
				switch r.(type) {
				case mergeFail, goPanic:
					ok = false
				default:
					panic(r)
				}
			}
		}()
		for _, a := range arms {
			fr.prev, fr.block = b, a
			for _, in := range a.Instrs {
				if _, isJ := in.(*ssa.Jump); isJ {
					break
				}
				ex.visit(fr, in)
			}
		}
		return true
	}()
	if !ok {
		return false
	}
	// merge the phis of the join block
	predVal := func(phi *ssa.Phi, pred *ssa.BasicBlock) (Value, bool) {
		for i, p := range join.Preds {
			if p == pred {
				return fr.get(phi.Edges[i]), true
			}
		}
		return nil, false
	}
	var tPred, ePred *ssa.BasicBlock // predecessor of join when cond is true / false
	switch {
	case len(arms) == 2:
		tPred, ePred = T, E
	case arms[0] == T:
		tPred, ePred = T, b
	default:
		tPred, ePred = b, E
	}
	over := map[*ssa.Phi]Value{}
	for _, in := range join.Instrs {
		phi, isPhi := in.(*ssa.Phi)
		if !isPhi {
			break
		}
		tv, ok1 := predVal(phi, tPred)
		ev, ok2 := predVal(phi, ePred)
		if !ok1 || !ok2 {
			return false
		}
		tt, okT := tv.(*Term)
		et, okE := ev.(*Term)
		if okT && okE && tt.kind == et.kind && tt.w == et.w {
			over[phi] = ex.tt.Ite(c, tt, et)
			continue
		}
		if sameValue(tv, ev) {
			over[phi] = tv
			continue
		}
		return false
	}
	fr.phiOverride = over
	fr.prev, fr.block = tPred, join
	ex.merges++
	return true
}

func sameValue(a, b Value) bool {
	switch x := a.(type) {
	case PtrV:
		y, ok := b.(PtrV)
		return ok && x == y
	case *MapV:
		y, ok := b.(*MapV)
		return ok && x == y
	case *ChanV:
		y, ok := b.(*ChanV)
		return ok && x == y
	case StrV:
		y, ok := b.(StrV)
		return ok && x.sym == nil && y.sym == nil && x.s == y.s
	case IfaceV:
		y, ok := b.(IfaceV)
		if !ok {
			return false
		}
		if x.t == nil || y.t == nil {
			return x.t == nil && y.t == nil
		}
		return types.Identical(x.t, y.t) && sameValue(x.v, y.v)
	case *Term:
		y, ok := b.(*Term)
		return ok && x == y
	}
	return false
}
