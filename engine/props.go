package main

// Property table: which harness configurations decide which property.

import "fmt"

func rc(name, pkg, harness string, params map[string]int) RunConfig {
	return RunConfig{Name: name, Pkg: fullPkg(pkg), Harness: harness, Params: params}
}

// arith: harnesses dominated by division/remainder/sum kernels: cvc5 with integer blasting decides them
func arith(c RunConfig) RunConfig {
	c.FeasSolver = "cvc5-int"
	c.Direct = true
	c.AssertSolvers = []string{"cvc5-int", "z3-new", "cvc5"}
	return c
}

func propTable() map[string]*PropSpec {
	t := map[string]*PropSpec{}

	// ---------------- C18 ----------------
	{
		var quick, thorough []RunConfig
		for _, n := range []int{4, 5, 7, 22, 64} {
			quick = append(quick, arith(rc(fmt.Sprintf("C18_Leader/n=%d", n), "services/termincommittee", "C18_Leader", map[string]int{"n": n})))
		}
		for n := 4; n <= 64; n++ {
			thorough = append(thorough, arith(rc(fmt.Sprintf("C18_Leader/n=%d", n), "services/termincommittee", "C18_Leader", map[string]int{"n": n})))
		}
		t["C18"] = &PropSpec{ID: "C18", Quick: quick, Thorough: thorough,
			Bounds:  []string{"committee size n concrete per query (quick: 4,5,7,22,64; thorough: every n in 4..64); view fully symbolic over 64 bits; window offset symbolic in 1..n-1"},
			Outside: []string{"committee sizes above 64"},
		}
	}
	return t
}
