package main

// Property table: which harness configurations decide which property.

import "fmt"

func rc(name, pkg, harness string, params map[string]int) RunConfig {
	return RunConfig{Name: name, Pkg: fullPkg(pkg), Harness: harness, Params: params}
}

// arith: harnesses dominated by division/remainder/sum kernels: cvc5 with integer blasting decides them
func arith(c RunConfig) RunConfig {
	c.FeasSolver = "cvc5-int"
	c.Direct = true
	c.AssertSolvers = []string{"cvc5-int", "z3-new", "cvc5"}
	return c
}

func propTable() map[string]*PropSpec {
	t := map[string]*PropSpec{}

	// ---------------- C18 ----------------
	{
		var quick, thorough []RunConfig
		for _, n := range []int{4, 5, 7, 22, 64} {
			quick = append(quick, arith(rc(fmt.Sprintf("C18_Leader/n=%d", n), "services/termincommittee", "C18_Leader", map[string]int{"n": n})))
		}
		for n := 4; n <= 64; n++ {
			thorough = append(thorough, arith(rc(fmt.Sprintf("C18_Leader/n=%d", n), "services/termincommittee", "C18_Leader", map[string]int{"n": n})))
		}
		t["C18"] = &PropSpec{ID: "C18", Quick: quick, Thorough: thorough,
			Bounds:  []string{"committee size n concrete per query (quick: 4,5,7,22,64; thorough: every n in 4..64); view fully symbolic over 64 bits; window offset symbolic in 1..n-1"},
			Outside: []string{"committee sizes above 64"},
		}
	}
	// ---------------- C06 ----------------
	{
		q := []RunConfig{arith(rc("C06_Quorum/n=4,m=5", "services/quorum", "C06_Quorum", map[string]int{"n": 4, "m": 5}))}
		th := []RunConfig{}
		for n := 4; n <= 7; n++ {
			th = append(th, arith(rc(fmt.Sprintf("C06_Quorum/n=%d,m=%d", n, n+2), "services/quorum", "C06_Quorum", map[string]int{"n": n, "m": n + 2})))
		}
		for i := range q {
			q[i].RequireReach = []string{"C06.total_gt_2^53", "C06.two_quorums"}
		}
		for i := range th {
			th[i].RequireReach = []string{"C06.total_gt_2^53", "C06.two_quorums"}
			th[i].AssertTimeout = 300
		}
		t["C06"] = &PropSpec{ID: "C06", Quick: q, Thorough: th,
			Assumptions: []string{"total committee weight fits in 64 bits and is positive (the property's precondition)", "committee ids are the distinct one-byte ids 1..n; list entries are arbitrary one-byte ids (duplicates, outsiders), plus fixed empty/two-byte/nil ids"},
			Bounds:      []string{"n=4, lists of 5 ids (quick); n=4..7, lists of n+2 ids (thorough); weights fully symbolic 64-bit"},
			Outside:     []string{"committees larger than 7 members; id lists longer than n+2; ids longer than one byte other than the fixed samples"},
		}
	}

	// ---------------- C19 ----------------
	{
		c := arith(rc("C19_Timeout", "services/electiontrigger", "C19_Timeout", nil))
		c.RequireReach = []string{"C19.view_ge_71", "C19.view_32"}
		t["C19"] = &PropSpec{ID: "C19", Quick: []RunConfig{c}, Thorough: []RunConfig{c},
			Assumptions: []string{"base timeout in [1ns, 2^62ns]", "math.Pow(2,y) summary: exact (native) for concrete y; >= 2^64 or +Inf for symbolic y >= 64"},
			Bounds:      []string{"views 0..70 each as a concrete case, views 71..2^64-1 as one symbolic class; base fully symbolic"},
			Outside:     []string{"timer goroutine racing Stop, 'not before the timeout', eventual delivery, slow/absent channel reader: properties of the Go runtime timer and scheduler"},
		}
	}
	return t
}
