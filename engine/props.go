package main

// Property table: which harness configurations decide which property.

import "fmt"

func rc(name, pkg, harness string, params map[string]int) RunConfig {
	return RunConfig{Name: name, Pkg: fullPkg(pkg), Harness: harness, Params: params}
}

// arith: harnesses dominated by division/remainder/sum kernels: cvc5 with integer blasting decides them
func arith(c RunConfig) RunConfig {
	c.FeasSolver = "cvc5-int"
	c.Direct = true
	c.AssertSolvers = []string{"cvc5-int", "z3-new", "cvc5"}
	return c
}

func propTable() map[string]*PropSpec {
	t := map[string]*PropSpec{}

	// ---------------- C18 ----------------
	{
		var quick, thorough []RunConfig
		for _, n := range []int{4, 5, 7, 22, 64} {
			quick = append(quick, arith(rc(fmt.Sprintf("C18_Leader/n=%d", n), "services/termincommittee", "C18_Leader", map[string]int{"n": n, "idlen": 1})))
		}
		for n := 4; n <= 64; n++ {
			thorough = append(thorough, arith(rc(fmt.Sprintf("C18_Leader/n=%d", n), "services/termincommittee", "C18_Leader", map[string]int{"n": n, "idlen": 1})))
			if n%6 == 4 {
				thorough = append(thorough, arith(rc(fmt.Sprintf("C18_Leader/n=%d/idlen=4", n), "services/termincommittee", "C18_Leader", map[string]int{"n": n, "idlen": 4})))
			}
		}
		for _, n := range []int{4, 7} {
			quick = append(quick, arith(rc(fmt.Sprintf("C18_Leader/n=%d/idlen=4", n), "services/termincommittee", "C18_Leader", map[string]int{"n": n, "idlen": 4})))
		}
		// the leader function as the node uses it: ordered committee with a zero-weight member, views 0..5
		for _, me := range []int{0, 1, 3} {
			for to := 0; to <= 5; to++ {
				if int(uint64(to)%4) == me {
					continue // the node leads that view itself
				}
				c := rc(fmt.Sprintf("C18_NodeLeader/me=%d/timeouts=%d/weights=5", me, to), ".", "C18_NodeLeader", map[string]int{"me": me, "timeouts": to, "weights": 5})
				c.RequireReach = []string{"C18.node.accepted_current_view"}
				thorough = append(thorough, c)
				if me == 1 && (to == 0 || to == 2 || to == 3) {
					quick = append(quick, c)
				}
				// the ordered committee is not sorted by id
				p := rc(fmt.Sprintf("C18_NodeLeader/me=%d/timeouts=%d/weights=0/idperm=1", me, to), ".", "C18_NodeLeader", map[string]int{"me": me, "timeouts": to, "weights": 0, "idperm": 1})
				p.RequireReach = []string{"C18.node.accepted_current_view"}
				thorough = append(thorough, p)
				if me == 1 && (to == 0 || to == 3) {
					quick = append(quick, p)
				}
			}
		}
		t["C18"] = &PropSpec{ID: "C18", Quick: quick, Thorough: thorough,
			Bounds:  []string{"committee size n concrete per query (quick: 4,5,7,22,64; thorough: every n in 4..64); view fully symbolic over 64 bits; window offset symbolic in 1..n-1"},
			Outside: []string{"committee sizes above 64"},
		}
	}
	// ---------------- C06 ----------------
	{
		q := []RunConfig{arith(rc("C06_Quorum/n=4,m=5", "services/quorum", "C06_Quorum", map[string]int{"n": 4, "m": 5}))}
		th := []RunConfig{}
		// (n=4 with lists of 6 and n=5..7 with lists of n+2 were tried after weightless committees were included: n=5
		// ended with an unknown verdict for C06.mono after 27 minutes, so they are outside the registered bounds)
		th = append(th, q[0])
		for i := range q {
			q[i].RequireReach = []string{"C06.total_gt_2^53", "C06.two_quorums"}
		}
		for i := range th {
			th[i].RequireReach = []string{"C06.total_gt_2^53", "C06.two_quorums"}
			th[i].AssertTimeout = 300
		}
		for _, n := range []int{65, 70, 130} {
			c := rc(fmt.Sprintf("C06_Large/n=%d,m=3", n), "services/quorum", "C06_Large", map[string]int{"n": n, "m": 3}) // no symbolic division: plain z3
			c.MaxLoop = 300
			c.MaxWallS = 600
			c.RequireReach = []string{"C06.large.two_members"}
			th = append(th, c)
			if n == 70 {
				q = append(q, c)
			}
		}
		for _, il := range []int{1, 3, 20, 21} {
			c := arith(rc(fmt.Sprintf("C06_IdShapes/idlen=%d,m=3", il), "services/quorum", "C06_IdShapes", map[string]int{"idlen": il, "m": 3}))
			c.RequireReach = []string{"C06.shapes.quorum"}
			th = append(th, c)
			if il == 1 || il == 21 {
				q = append(q, c)
			}
		}
		t["C06"] = &PropSpec{ID: "C06", Quick: q, Thorough: th,
			Assumptions: []string{"total committee weight fits in 64 bits and is positive (the property's precondition)", "committee ids are the distinct one-byte ids 1..n; list entries are arbitrary one-byte ids (duplicates, outsiders), plus fixed empty/two-byte/nil ids"},
			Bounds:      []string{"n=4, lists of 5 ids (both tiers); weights fully symbolic 64-bit", "id shapes: committee of 4 whose ids have length 1 / 21 (quick) or 1, 3, 20, 21 (thorough) and share all but their last byte; lists of 3 entries of length L-1, L or L+1 with symbolic tail bytes"},
			Outside:     []string{"committees larger than 4 members with fully symbolic weights (large committees: 65, 70, 130 members with unit weights; lists of 3 copies of one symbolic id plus another symbolic id); id lists longer than n+2"},
		}
	}

	// ---------------- C19 ----------------
	{
		c := arith(rc("C19_Timeout", "services/electiontrigger", "C19_Timeout", nil))
		c.RequireReach = []string{"C19.view_ge_71", "C19.view_32"}
		g := rc("C19_Guards", "services/electiontrigger", "C19_Guards", nil)
		g.RequireReach = []string{"C19.guards.done"}
		var st19 []RunConfig
		for _, nv := range []int{1, 0} {
			sc := rc(fmt.Sprintf("C19_StaleTrigger/by_new_view=%d", nv), ".", "C19_StaleTrigger", map[string]int{"by_new_view": nv})
			sc.RequireReach = []string{"C19.stale.done", "C19.current.done"}
			st19 = append(st19, sc)
		}
		t["C19"] = &PropSpec{ID: "C19", Quick: append([]RunConfig{c, g}, st19...), Thorough: append([]RunConfig{c, g}, st19...),
			Assumptions: []string{"base timeout in [1ns, 2^62ns]", "math.Pow(2,y) summary: exact (native) for concrete y; >= 2^64 or +Inf for symbolic y >= 64"},
			Bounds:      []string{"views 0..70 each as a concrete case, views 71..2^64-1 as one symbolic class; base fully symbolic", "consumer side: a stale trigger (symbolic position, callback of the superseded registration) read by one iteration of the real WorkerLoop.Run after the node left view 0 by NEW_VIEW or by timeout is not acted upon; the current one is", "guards: one trigger object, symbolic positions (views 0..3), the sequence arm / same-pair re-arm / expire+deliver / Stop / re-arm same pair / arm + (expire unread)? + re-arm other pair / Stop, against ghost timers (time.AfterFunc recorded, fired by the harness; natively real 1 ms timers)"},
			Outside:     []string{"the timer firing concurrently with Stop / RegisterOnElection, 'not before the timeout', delivery latency, a reader that shows up only later: properties of the Go runtime timer and scheduler"},
		}
	}
	// ---------------- C02 ----------------
	{
		var q, th []RunConfig
		for _, k := range []int{1, 3, 4} {
			c := rc(fmt.Sprintf("C02_Struct/signers=%d", k), ".", "C02_Struct", map[string]int{"signers": k})
			c.RequireReach = []string{"C02.accepted_soft", "C02.accepted_strict"}
			q = append(q, c)
		}
		for _, l := range []int{0, 8, 12} {
			q = append(q, rc(fmt.Sprintf("C02_Bytes/len=%d", l), ".", "C02_Bytes", map[string]int{"len": l}))
		}
		for _, k := range []int{2, 3} {
			// history independence: the same validator was asked about the same certificate before, in any mode
			c := rc(fmt.Sprintf("C02_Struct/signers=%d/warmup=1", k), ".", "C02_Struct", map[string]int{"signers": k, "warmup": 1})
			c.RequireReach = []string{"C02.accepted_soft", "C02.accepted_strict"}
			if k == 2 {
				c.RequireReach = []string{"C02.accepted_soft"} // 2 of 4 equal members: above f, below the quorum
				q = append(q, c)
			}
			th = append(th, c)
		}
		for k := 0; k <= 5; k++ {
			c := rc(fmt.Sprintf("C02_Struct/signers=%d", k), ".", "C02_Struct", map[string]int{"signers": k})
			if k >= 1 && k <= 4 {
				c.RequireReach = []string{"C02.accepted_soft"}
			}
			th = append(th, c)
		}
		for _, l := range []int{0, 1, 2, 3, 4, 5, 6, 7, 8, 12, 16, 20, 24} {
			th = append(th, rc(fmt.Sprintf("C02_Bytes/len=%d", l), ".", "C02_Bytes", map[string]int{"len": l}))
		}
		for _, k := range []int{1, 3, 4} {
			c := rc(fmt.Sprintf("C02_Mutate/signers=%d", k), ".", "C02_Mutate", map[string]int{"signers": k})
			c.RequireReach = []string{"C02.mutate.rejected"}
			if k >= 3 {
				c.RequireReach = []string{"C02.mutate.rejected", "C02.mutate.accepted"}
			}
			th = append(th, c)
			if k == 1 {
				q = append(q, c)
			}
		}
		t["C02"] = &PropSpec{ID: "C02", Quick: q, Thorough: th,
			Assumptions: []string{"ideal signature registry (zzverifstub.Registry): a signature verifies exactly for the (signer, height, content bytes) it was made for", "block commitment stub: hash is the block's one-byte tag", "random-seed summaries: seed = the 8 signature bytes (injective), group signature = injective function of (height, seed)"},
			Bounds:      []string{"committee of 4 (ids 1..4), symbolic 64-bit weights; structured proofs with 0..5 signers, every field symbolic (type tag 16 bit, instance/height/view 64 bit, hash 1 byte, signer ids 1 byte, signatures 8 bytes, per-signer validity symbolic), optionally preceded by an earlier call of the same validator with the same certificate in an arbitrary mode (equal concrete weights; 2 signers quick, 2 and 3 thorough); arbitrary proof byte strings of length <= 12 (quick) / <= 24 (thorough)", "structured mutation: a genuine certificate of 1 (quick) / 1, 3, 4 (thorough) signers, equal concrete weights, with one 4-byte aligned window at a symbolic position replaced by a little-endian value below 64 or within 64 of 2^32 (no panic, also not from goroutines the validation might spawn)"},
			Outside:     []string{"arbitrary byte strings longer than 24 bytes; committees other than 4 members; hashes/ids longer than one byte"},
		}
	}

	// ---------------- C12 ----------------
	{
		var q, th []RunConfig
		for _, l := range []int{0, 4, 8, 12, 16} {
			q = append(q, rc(fmt.Sprintf("C12_Bytes/len=%d", l), ".", "C12_Bytes", map[string]int{"len": l}))
		}
		for _, l := range []int{0, 1, 2, 3, 4, 5, 6, 7, 8, 12, 16, 20, 24} {
			th = append(th, rc(fmt.Sprintf("C12_Bytes/len=%d", l), ".", "C12_Bytes", map[string]int{"len": l}))
		}
		for kind := 0; kind <= 4; kind++ {
			c := rc(fmt.Sprintf("C12_Mutate/kind=%d", kind), ".", "C12_Mutate", map[string]int{"kind": kind})
			c.RequireReach = []string{"C12.mutate.forwarded", "C12.mutate.followup"}
			th = append(th, c)
			if kind >= 1 && kind <= 3 {
				q = append(q, c)
			}
		}
		for _, kind := range []int{1, 2} {
			c := rc(fmt.Sprintf("C12_Mutate/kind=%d/windows=2", kind), ".", "C12_Mutate", map[string]int{"kind": kind, "windows": 2})
			c.MaxPaths = 2000000
			th = append(th, c)
		}
		for kind := 0; kind <= 4; kind++ {
			c := rc(fmt.Sprintf("C12_MutateFuture/kind=%d", kind), ".", "C12_MutateFuture", map[string]int{"kind": kind})
			c.RequireReach = []string{"C12.future.synced"}
			th = append(th, c)
			if kind == 0 || kind == 3 {
				q = append(q, c)
			}
		}
		// a block-less NEW_VIEW under a consumer that does not object: the node must not end up voting "proof without block"
		bl12 := rc("C11_BlocklessNewView", ".", "C11_BlocklessNewView", nil)
		bl12.RequireReach = []string{"C11.blockless.voted"}
		q = append(q, bl12)
		th = append(th, bl12)
		// ValidateBlockConsensus / GetMemberIdsFromBlockProof on a genuine certificate with one mutated window
		for _, k := range []int{1, 3} {
			c := rc(fmt.Sprintf("C02_Mutate/signers=%d", k), ".", "C02_Mutate", map[string]int{"signers": k})
			c.RequireReach = []string{"C02.mutate.rejected"}
			th = append(th, c)
			if k == 1 {
				q = append(q, c)
			}
		}
		for _, me := range []int{2, 3} {
			for kind := 1; kind <= 2; kind++ {
				c := rc(fmt.Sprintf("C12_ElectionAfterMessage/me=%d/kind=%d", me, kind), ".", "C12_ElectionAfterMessage", map[string]int{"me": me, "kind": kind})
				c.RequireReach = []string{"C12.election_after_message.done"}
				th = append(th, c)
				if me == 3 {
					q = append(q, c)
				}
			}
		}
		fq := rc("C12_FullQueue", ".", "C12_FullQueue", nil)
		fq.MaxLoop = 1200
		fq.RequireReach = []string{"C12.fullqueue.done"}
		q = append(q, fq)
		th = append(th, fq)
		t["C12"] = &PropSpec{ID: "C12", Quick: q, Thorough: th,
			Assumptions: []string{"channel model: the harness plays the sending goroutine (one pending send on messagesChannel); the loop context is cancelled when the loop is idle"},
			Bounds:      []string{"fully symbolic content bytes of length <= 16 (quick) / <= 24 (thorough), with and without a block; one iteration of MainLoop.run then one of WorkerLoop.Run", "structured mutation: a genuine PREPARE / COMMIT / VIEW_CHANGE-with-proof (quick) and also PREPREPARE / NEW_VIEW-with-votes (thorough), 60..400 bytes, with one 4-byte aligned window at a symbolic position replaced by arbitrary bytes, through MainLoop.run and the worker's handler, followed by an honest round that must still commit"},
			Outside:     []string{"byte strings longer than 24; govnr restarts; survival beyond the follow-up round"},
		}
	}
	// ---------------- C20 ----------------
	{
		var q, th []RunConfig
		mk := func(h string, params map[string]int, reach string) RunConfig {
			name := h
			if _, ok := params["shape"]; !ok && (h == "C20_ViewChange" || h == "C20_NewView") {
				params["shape"] = 0
			}
			for _, k := range []string{"idlen", "hashlen", "prepares", "proof", "votes", "proofmask", "commits", "shape", "nopp"} {
				if v, ok := params[k]; ok {
					name += fmt.Sprintf("/%s=%d", k, v)
				}
			}
			c := rc(name, ".", h, params)
			c.RequireReach = []string{reach}
			return c
		}
		lens := []int{0, 1, 2, 3, 4, 5, 8, 32}
		for _, il := range lens {
			for _, hl := range lens {
				c := mk("C20_Simple", map[string]int{"idlen": il, "hashlen": hl}, "C20.simple.done")
				th = append(th, c)
				if il == hl || (il == 1 && hl == 32) || (il == 3 && hl == 0) {
					q = append(q, c)
				}
			}
		}
		for _, il := range []int{0, 1, 3, 8} {
			for pr := 0; pr <= 3; pr++ {
				for proof := 0; proof <= 1; proof++ {
					if proof == 0 && pr > 0 {
						continue
					}
					c := mk("C20_ViewChange", map[string]int{"idlen": il, "hashlen": (il + 1) % 5, "prepares": pr, "proof": proof}, "C20.VC.done")
					th = append(th, c)
					if il == 1 || (il == 3 && pr == 2) || (il == 0 && proof == 1 && pr == 1) {
						q = append(q, c)
					}
				}
			}
		}
		for votes := 0; votes <= 4; votes++ {
			for _, mask := range []int{0, 1, 5, 15} {
				if mask >= 1<<uint(votes) && mask != 0 {
					continue
				}
				for _, pr := range []int{0, 2, 3} {
					if mask == 0 && pr > 0 {
						continue
					}
					c := mk("C20_NewView", map[string]int{"idlen": 1 + votes%3, "hashlen": 1 + (votes+pr)%4, "votes": votes, "prepares": pr, "proofmask": mask}, "C20.NV.done")
					th = append(th, c)
					if pr != 3 {
						q = append(q, c)
					}
				}
			}
		}
		// shapes no correct node produces but the factory accepts: PREPAREs of another view, proof without PREPREPARE
		for _, shape := range []int{1, 2} {
			for _, pr := range []int{1, 2} {
				c := mk("C20_ViewChange", map[string]int{"idlen": 1, "hashlen": 2, "prepares": pr, "proof": 1, "shape": shape}, "C20.VC.done")
				c2 := mk("C20_NewView", map[string]int{"idlen": 2, "hashlen": 1, "votes": 2, "prepares": pr, "proofmask": 3, "shape": shape}, "C20.NV.done")
				th = append(th, c, c2)
				q = append(q, c, c2)
			}
		}
		// NEW_VIEW with a block and without an embedded PREPREPARE (the factory builds it)
		for _, votes := range []int{0, 2} {
			c := mk("C20_NewView", map[string]int{"idlen": 1, "hashlen": 2, "votes": votes, "prepares": 0, "proofmask": 0, "nopp": 1}, "C20.NV.done")
			th = append(th, c)
			q = append(q, c)
		}
		for commits := 1; commits <= 4; commits++ {
			for _, il := range []int{1, 2, 5} {
				c := mk("C20_BlockProof", map[string]int{"idlen": il, "hashlen": il + 1, "commits": commits, "emptyshares": 0}, "C20.proof.done")
				th = append(th, c)
				if il == 1 {
					q = append(q, c)
				}
				if il == 2 && commits >= 2 {
					c2 := mk("C20_BlockProof", map[string]int{"idlen": il, "hashlen": il + 1, "commits": commits, "emptyshares": 2}, "C20.proof.done")
					c2.Name += "/emptyshares=2"
					th = append(th, c2)
					if commits == 3 {
						q = append(q, c2)
					}
				}
			}
		}
		t["C20"] = &PropSpec{ID: "C20", Quick: q, Thorough: th,
			Assumptions: []string{"ideal signature registry: a signature verifies exactly for the bytes it was made for"},
			Bounds:      []string{"byte-field lengths from {0,1,2,3,4,5,8,32} (all residues mod 4, the alignment period of membuffers); 0..4 votes; 0..3 PREPARE senders per proof; 1..4 commits per block proof; all field contents (instance, height, view 64-bit; ids, hashes) symbolic"},
			Outside:     []string{"field lengths other than the listed ones (the statement quantifies over 0..256); more than 4 votes / 3 prepare senders (statement: 0..20)"},
		}
	}
	// ---------------- C08 ----------------
	{
		var q, th []RunConfig
		kinds := []string{"PP", "P", "C", "VC"}
		for _, pf := range []int{0, 1, 2, 3, 4, 5} {
			for kind := 0; kind <= 2; kind++ {
				c := rc(fmt.Sprintf("C08_OneMessage/prefix=%d/kind=%s", pf, kinds[kind]), ".", "C08_OneMessage", map[string]int{"prefix": pf, "kind": kind})
				th = append(th, c)
				if pf != 1 {
					q = append(q, c)
				}
			}
			for _, k := range []int{-2, -1, 0, 1, 2, 3} {
				c := rc(fmt.Sprintf("C08_OneMessage/prefix=%d/kind=VC/prepares=%d", pf, k), ".", "C08_OneMessage", map[string]int{"prefix": pf, "kind": 3, "prepares": k})
				th = append(th, c)
				if (pf == 3 || pf == 4) && (k == -1 || k == 2 || k == -2) {
					q = append(q, c)
				}
			}
		}
		for kind := 0; kind <= 3; kind++ {
			c := rc(fmt.Sprintf("C08_FutureMessage/kind=%s", kinds[kind]), ".", "C08_FutureMessage", map[string]int{"kind": kind})
			c.RequireReach = []string{"C08.future.influence"}
			q = append(q, c)
			th = append(th, c)
		}
		for kind := 0; kind <= 3; kind++ {
			c := rc(fmt.Sprintf("C08_NotInCommittee/kind=%s", kinds[kind]), ".", "C08_NotInCommittee", map[string]int{"kind": kind})
			c.RequireReach = []string{"C08.outsider_node.done"}
			q = append(q, c)
			th = append(th, c)
		}
		// the messages embedded in a NEW_VIEW (its PREPREPARE, its votes) must be authentic as well: the C07 harness
		// with proof-less votes is run under C08 too (every field of the NEW_VIEW symbolic)
		for _, pf := range []int{0, 3} {
			c := rc(fmt.Sprintf("C07_NewView/prefix=%d/votes=3/proofmask=0/prepares=0", pf), ".", "C07_NewView", map[string]int{"prefix": pf, "votes": 3, "proofmask": 0, "prepares": 0, "me": -1, "prepares2": -1})
			c.MaxPaths = 400000
			th = append(th, c)
			if pf == 0 {
				q = append(q, c)
			}
		}
		t["C08"] = &PropSpec{ID: "C08", Quick: q, Thorough: th,
			Assumptions: []string{"ideal signature registry; block commitment / proposal validation stubs (zzverifstub); committee of 4 with equal weights; node index symbolic (0..3)", "every adversarial field is symbolic: instance, header type tag, height, view (64 bit), hash byte, sender id byte (members and outsiders), signature validity bit + 8 arbitrary bytes, share validity, block presence/fields, all proof fields"},
			Bounds:      []string{"one symbolic message per run, delivered through RawMessageFilter -> ConsensusMessagesFilter -> TermInCommittee in 6 prefix states (fresh, proposal accepted, prepared, timed out with/without lock, committed); plus one symbolic PREPREPARE/PREPARE/COMMIT received at height 1 followed by a sync to a symbolic later height (future-cache path); prepared proofs with <= 3 PREPARE senders; hashes and ids one byte long"},
			Outside:     []string{"two or more adversarial messages in sequence (covered for specific shapes by C10/C01 harnesses); committees other than 4 equal-weight members; NEW_VIEW with prepared proofs (C07; the proof-less NEW_VIEW with every field symbolic is run here as well)"},
		}
	}
	// ---------------- C07 ----------------
	{
		var q, th []RunConfig
		nv := func(pf, votes, mask, prep int) RunConfig {
			c := rc(fmt.Sprintf("C07_NewView/prefix=%d/votes=%d/proofmask=%d/prepares=%d", pf, votes, mask, prep), ".", "C07_NewView", map[string]int{"prefix": pf, "votes": votes, "proofmask": mask, "prepares": prep, "me": -1, "prepares2": -1})
			c.MaxPaths = 400000
			return c
		}
		// two proof-carrying votes: only the one with the highest proof view is validated together with its
		// proof by the code, the other one must still be a genuine vote
		two := nv(3, 3, 3, 2)
		two.Name += "/prepares2=0/me=2"
		two.Params["prepares2"] = 0
		two.Params["me"] = 2
		locked := nv(3, 3, 1, 2)
		locked.Name += "/me=2"
		locked.Params["me"] = 2
		_ = locked // single-proof variant: thorough tier only (the two-proof configuration covers the locked path)
		q = append(q, nv(3, 3, 0, 0), nv(3, 2, 0, 0), nv(0, 3, 0, 0), two, nv(7, 3, 0, 0))
		th = append(th, locked, two)
		q[0].RequireReach = []string{"C07.accepted_fresh"}
		q[3].RequireReach = []string{"C07.accepted_locked"}
		q[3].MaxPaths = 400000
		for _, pf := range []int{0, 3} {
			c := rc(fmt.Sprintf("C07_BarePreprepare/prefix=%d", pf), ".", "C07_BarePreprepare", map[string]int{"prefix": pf})
			q = append(q, c)
			th = append(th, c)
		}
		for _, pf := range []int{0, 3, 4, 7} {
			for votes := 0; votes <= 4; votes++ {
				th = append(th, nv(pf, votes, 0, 0))
			}
			th = append(th, nv(pf, 3, 1, 2), nv(pf, 3, 1, 3), nv(pf, 3, 2, 2), nv(pf, 3, 4, 2))
		}
		th = append(th, nv(3, 3, 3, 2), nv(3, 4, 1, 2), nv(3, 3, 5, 2))
		// weights 1,2,3,4: two votes already reach the quorum, the third (surplus) vote carries the proof
		surplus := nv(3, 3, 4, 2)
		surplus.Name += "/weights=2"
		surplus.Params["weights"] = 2
		th = append(th, surplus, nv(3, 4, 8, 2))
		// boundary: all hashes empty (one proof-carrying vote / no proof)
		for _, mask := range []int{1, 0} {
			eh := nv(3, 3, mask, 2*mask)
			eh.Name += "/hashlen=0"
			eh.Params["hashlen"] = 0
			th = append(th, eh)
		}
		ehq := nv(3, 3, 4, 2)
		ehq.Name += "/weights=2/genuine=2/me=0/hashlen=0"
		ehq.Params["weights"], ehq.Params["genuine"], ehq.Params["me"], ehq.Params["hashlen"] = 2, 2, 0, 0
		q = append(q, ehq)
		th = append(th, ehq)
		// the same with the two quorum-completing votes genuine (cheap enough for the quick tier)
		sg := nv(3, 3, 4, 2)
		sg.Name += "/weights=2/genuine=2/me=0"
		sg.Params["weights"], sg.Params["genuine"], sg.Params["me"] = 2, 2, 0
		sg.RequireReach = []string{"C07.accepted"}
		q = append(q, sg)
		th = append(th, sg)
		// the consumer's validation of a fresh NEW_VIEW proposal is aborted by a cancellation while it runs
		spi3 := rc("C15_SPI/site=3", ".", "C15_SPI", map[string]int{"site": 3})
		spi3.RequireReach = []string{"C15.spi.cancelled"}
		q = append(q, spi3)
		th = append(th, spi3)
		fnv := rc("C07_FutureNewView", ".", "C07_FutureNewView", nil)
		fnv.RequireReach = []string{"C07.future.adopted", "C07.future.ignored"}
		q = append(q, fnv)
		th = append(th, fnv)
		for _, me := range []int{0, 1, 2} {
			c := rc(fmt.Sprintf("C07_HighestProof/me=%d", me), ".", "C07_HighestProof", map[string]int{"me": me})
			c.RequireReach = []string{"C07.hp.highest_proposed"}
			th = append(th, c)
			if me == 1 {
				q = append(q, c)
			}
		}
		t["C07"] = &PropSpec{ID: "C07", Quick: q, Thorough: th, LabelPrefixes: []string{"C07."},
			Assumptions: []string{"ideal signature registry; proposal validation / commitment stubs; committee of 4 equal weights; node index symbolic"},
			Bounds:      []string{"one symbolic NEW_VIEW (all header, embedded-proposal and per-vote fields symbolic, 0..4 votes, listed proof masks, <=3 PREPARE senders per proof) or one symbolic PREPREPARE, delivered in prefix states fresh / timed-out / timed-out-with-lock"},
			Outside:     []string{"the clause about a correct leader proposing only after collecting votes is decided by the C09 harness (leader side); more than 4 votes; several proofs beyond the listed masks"},
		}
	}
	// ---------------- C03 / C04 (same runs, different assertion labels) ----------------
	{
		mk := func(me, honest, sym int) RunConfig {
			c := rc(fmt.Sprintf("C03_Commits/me=%d/honest=%d/sym=%d", me, honest, sym), ".", "C03_Commits", map[string]int{"me": me, "honest": honest, "sym": sym})
			c.RequireReach = []string{"C03.committed"}
			return c
		}
		q := []RunConfig{mk(1, 2, 1), mk(1, 1, 2), mk(0, 1, 2), mk(1, 3, 1), mk(2, 0, 3)}
		th := append([]RunConfig{}, q...)
		th = append(th, mk(0, 0, 3), mk(3, 1, 2), mk(3, 2, 2), mk(0, 2, 2), mk(1, 0, 3))
		for _, me := range []int{1, 2, 3} {
			c := rc(fmt.Sprintf("C03_FutureCommit/me=%d", me), ".", "C03_FutureCommit", map[string]int{"me": me})
			c.RequireReach = []string{"C03.future.two_heights"}
			th = append(th, c)
			if me == 1 {
				q = append(q, c)
			}
		}
		// symbolic COMMITs whose (validly signed) header carries 4 extra trailing bytes
		tc := mk(1, 1, 2)
		tc.Name += "/trailing=4"
		tc.Params = map[string]int{"me": 1, "honest": 1, "sym": 2, "trailing": 4}
		tc.RequireReach = nil // since the fix such COMMITs are not counted, so this configuration does not commit
		q = append(q, tc)
		th = append(th, tc)
		tcc := mk(1, 1, 2)
		tcc.Name += "/trailing=-4"
		tcc.Params = map[string]int{"me": 1, "honest": 1, "sym": 2, "trailing": -4}
		tccr := tcc
		tccr.Name += "/maps=reversed"
		tccr.MapReverse = true
		tccr.RequireReach = nil
		q = append(q, tcc, tccr)
		th = append(th, tcc)
		// one member alone holds the quorum weight: its certificate has a single signer
		hv3 := mk(3, 0, 1)
		hv3.Name += "/weights=6"
		hv3.Params = map[string]int{"me": 3, "honest": 0, "sym": 1, "weights": 6}
		q = append(q, hv3)
		th = append(th, hv3)
		// a committee with a zero-weight member whose genuine COMMIT ends up in the certificate
		zw := mk(1, 3, 1)
		zw.Name += "/weights=5"
		zw.Params = map[string]int{"me": 1, "honest": 3, "sym": 1, "weights": 5}
		q = append(q, zw)
		th = append(th, zw)
		// delayed view-0 COMMITs after a view change and a symbolic later-view PREPREPARE
		for _, me := range []int{1, 2, 3} {
			for _, prep := range []int{0, 1} {
				for _, to := range []int{1, 2} {
					for _, pr := range []int{0, 1} {
						c := rc(fmt.Sprintf("C03_LateCommit/me=%d/prepared=%d/timeouts=%d/prepare=%d", me, prep, to, pr), ".", "C03_LateCommit", map[string]int{"me": me, "prepared": prep, "timeouts": to, "prepare": pr})
						c.RequireReach = []string{"C03.late.commit"}
						th = append(th, c)
						if pr == 0 && ((me == 2 && to == 1) || (me == 1 && to == 2 && prep == 1)) {
							c.RequireReach = []string{"C03.late.commit", "C03.late.later_proposal_stored"}
							q = append(q, c)
						}
					}
				}
			}
		}
		// weights 1,2,3,4: the committing node holds more COMMITs than a count-quorum
		wl := rc("C03_LateCommit/me=2/prepared=1/timeouts=1/prepare=0/weights=2", ".", "C03_LateCommit", map[string]int{"me": 2, "prepared": 1, "timeouts": 1, "prepare": 0, "weights": 2})
		wl.RequireReach = []string{"C03.late.commit"}
		q = append(q, wl)
		th = append(th, wl)
		q4 := append([]RunConfig{}, q...)
		th4 := append([]RunConfig{}, th...)
		lr := rc("C04_LeaderReproposal", ".", "C04_LeaderReproposal", nil)
		lr.RequireReach = []string{"C04.leader.committed", "C04.leader.no_commit"}
		q4 = append(q4, lr)
		th4 = append(th4, lr)
		for _, me := range []int{0, 2} {
			for _, mask := range []int{0, 1} {
				c := rc(fmt.Sprintf("C04_NewViewCommit/me=%d/proofmask=%d", me, mask), ".", "C04_NewViewCommit", map[string]int{"me": me, "proofmask": mask})
				c.RequireReach = []string{"C04.nv.committed"}
				c.MaxPaths = 400000
				th4 = append(th4, c)
				if me == 2 {
					q4 = append(q4, c)
				}
			}
		}
		for _, me := range []int{2, 3} {
			pv := rc(fmt.Sprintf("C04_PanickingValidator/me=%d", me), ".", "C04_PanickingValidator", map[string]int{"me": me})
			pv.RequireReach = []string{"C04.panicking_validator.done"}
			th4 = append(th4, pv)
			if me == 2 {
				q4 = append(q4, pv)
			}
		}
		// boundary: every hash of the symbolic NEW_VIEW is empty
		eh4 := rc("C04_NewViewCommit/me=2/proofmask=1/hashlen=0", ".", "C04_NewViewCommit", map[string]int{"me": 2, "proofmask": 1, "hashlen": 0})
		eh4.MaxPaths = 400000
		q4 = append(q4, eh4)
		th4 = append(th4, eh4)
		// the node still holds the (unprepared) view-0 proposal when the symbolic NEW_VIEW arrives
		for _, me := range []int{2, 3} {
			c := rc(fmt.Sprintf("C04_NewViewCommit/me=%d/proofmask=0/prefix=7", me), ".", "C04_NewViewCommit", map[string]int{"me": me, "proofmask": 0, "prefix": 7})
			c.RequireReach = []string{"C04.nv.committed"}
			c.MaxPaths = 400000
			th4 = append(th4, c)
			if me == 2 {
				q4 = append(q4, c)
			}
		}
		common := []string{"ideal signature registry, proposal/commitment stubs, committee of 4 equal weights", "the validating peer is a second real WorkerLoop with the same committee and (empty) previous proof"}
		t["C03"] = &PropSpec{ID: "C03", Quick: q, Thorough: th, LabelPrefixes: []string{"C03."},
			Assumptions: common,
			Bounds:      []string{"one node (leader or follower) holding the view-0 proposal receives h genuine COMMITs then k fully symbolic COMMITs (h+k<=4, k<=3; header type tag, instance, height, view, hash, sender incl. outsiders with valid keys, signature and share validity all symbolic); also exercised at every commit of the C01 runs"},
			Outside:     []string{"commits in views > 0 other than those of the C01/C09 runs; committees other than 4 equal-weight members"},
		}
		t["C04"] = &PropSpec{ID: "C04", Quick: q4, Thorough: th4, LabelPrefixes: []string{"C04."},
			Assumptions: common,
			Bounds:      []string{"same runs as C03, plus: a node that timed out receives one entirely symbolic NEW_VIEW (3 votes, with/without a prepared proof) followed by genuine PREPAREs/COMMITs for whatever it accepted; 'approved by a correct member' = approved by this node's own ValidateBlockProposal, produced by its own RequestNewBlockProposal, or certified by a valid prepared proof of a genuine vote (correct members only PREPARE what their consumer approved)"},
			Outside:     []string{"approval by *another* correct member only (multi-node; see C01 harness)"},
		}
	}
	// ---------------- C09 ----------------
	{
		var q, th []RunConfig
		for _, w := range []int{0, 1, 2, 3} {
			for me := 1; me <= 3; me++ {
				for sv := 0; sv <= 1; sv++ {
					c := rc(fmt.Sprintf("C09_Vote/me=%d/weights=%d/second_view=%d", me, w, sv), ".", "C09_Vote", map[string]int{"me": me, "weights": w, "second_view": sv})
					th = append(th, c)
					if (w == 0 && me != 3) || (w == 2 && me == 2 && sv == 1) {
						q = append(q, c)
					}
				}
			}
			c := rc(fmt.Sprintf("C09_Leader/weights=%d", w), ".", "C09_Leader", map[string]int{"weights": w})
			th = append(th, c)
			if w == 0 || w == 2 {
				c.RequireReach = []string{"C09.nv.locked"}
				q = append(q, c)
			}
		}
		// PREPAREs whose header bytes are padded (signed over the canonical encoding); storage order forward and reversed
		for _, rev := range []bool{false, true} {
			pd := rc("C09_Vote/me=2/weights=0/second_view=0/padded_prepare=1", ".", "C09_Vote", map[string]int{"me": 2, "weights": 0, "second_view": 0, "padded_prepare": 1})
			if rev {
				pd.Name += "/maps=reversed"
				pd.MapReverse = true
			}
			q = append(q, pd)
			th = append(th, pd)
		}
		// a full cycle of election timeouts after preparing in view 0 (the next leader is the prepared view's leader)
		for _, x := range []int{3, 4} {
			c := rc(fmt.Sprintf("C09_Vote/me=2/weights=0/second_view=0/extra_timeouts=%d", x), ".", "C09_Vote", map[string]int{"me": 2, "weights": 0, "second_view": 0, "extra_timeouts": x})
			th = append(th, c)
			if x == 3 {
				q = append(q, c)
			}
		}
		for _, me := range []int{2, 3} {
			c := rc(fmt.Sprintf("C13_CommitThenPrepared/me=%d", me), ".", "C13_CommitThenPrepared", map[string]int{"me": me})
			if me == 3 {
				c.RequireReach = []string{"C09.ctp.voted"} // (node 2 leads the view it times out into: its vote is stored, not sent)
			}
			th = append(th, c)
			if me == 3 {
				q = append(q, c)
			}
		}
		// a member floods the node with PREPAREs for 40 different later views before the timeout
		fl := rc("C09_Vote/me=2/weights=0/second_view=0/flood=40", ".", "C09_Vote", map[string]int{"me": 2, "weights": 0, "second_view": 0, "flood": 40})
		q = append(q, fl)
		th = append(th, fl)
		for _, w := range []int{0, 2} {
			c := rc(fmt.Sprintf("C09_LeaderViews/weights=%d", w), ".", "C09_LeaderViews", map[string]int{"weights": w})
			c.RequireReach = []string{"C09.nv.locked"}
			th = append(th, c)
			if w == 0 {
				q = append(q, c)
			}
		}
		t["C09"] = &PropSpec{ID: "C09", Quick: q, Thorough: th, LabelPrefixes: []string{"C09."},
			Assumptions: []string{"ideal signature registry, proposal/commitment stubs; committee of 4 with the listed concrete weight vectors ([1,1,1,1],[3,1,1,1],[1,2,3,4],[2,2,1,1])"},
			Bounds:      []string{"vote side: node 1..3 accepts the view-0 proposal, receives PREPAREs from a symbolic subset, optionally adopts view 1 by an honest locked NEW_VIEW and prepares there from a symbolic subset, then times out; leader side: node 2 as leader of view 2 receives votes of 5 shapes (none / no proof / view-0 proof / view-1 proof / view-1 proof without block) from the three other members in 3 arrival orders"},
			Outside:     []string{"locks from views above 1; committees other than 4; vote shapes with forged proofs (rejected before counting: C08)"},
		}
	}
	// ---------------- C10 ----------------
	{
		var q, th []RunConfig
		mk := func(me, pf, events, seq int) RunConfig {
			return rc(fmt.Sprintf("C10_Events/me=%d/prefix=%d/seq=%0*d", me, pf, events, seq), ".", "C10_Events", map[string]int{"me": me, "prefix": pf, "events": events, "seq": seq})
		}
		for _, me := range []int{0, 1, 2} {
			for _, pf := range []int{0, 1, 2, 4} {
				for a := 0; a <= 6; a++ {
					for b := 0; b <= 6; b++ {
						if a == 5 {
							continue // nothing to re-deliver yet
						}
						c := mk(me, pf, 2, a*10+b)
						th = append(th, c)
						if me <= 1 && (pf == 0 || pf == 2) {
							q = append(q, c)
						}
					}
				}
			}
		}
		// accepted proposal + two COMMITs, then: timeout / third COMMIT in either order, re-deliveries
		for _, seq := range []int{42, 24, 45, 25, 22, 46, 26, 62} {
			c := mk(1, 6, 2, seq)
			th = append(th, c)
			q = append(q, c)
		}
		// elected leader (prefix 8), then: delayed NEW_VIEW of an older view / late votes / symbolic messages
		for _, seq := range []int{78, 87, 88, 68, 38, 48, 58, 8} {
			for _, me := range []int{1, 2, 3} {
				c := mk(me, 8, 2, seq)
				th = append(th, c)
				if me == 2 && (seq == 78 || seq == 88 || seq == 38) {
					q = append(q, c)
				}
			}
		}
		// the transport reports an error for the NEW_VIEW broadcast of the elected leader; then late votes
		for _, me := range []int{1, 2, 3} {
			for _, seq := range []int{8, 88} {
				c := mk(me, 8, map[int]int{8: 1, 88: 2}[seq], seq)
				c.Name += "/sendfail=2"
				c.Params["sendfail"] = 2
				th = append(th, c)
				if me == 2 && seq == 8 {
					q = append(q, c)
				}
			}
		}
		// the transport reports an error for a PREPARE broadcast; a node that committed but whose callback failed
		for _, me := range []int{1, 2} {
			sf := mk(me, 0, 2, 0)
			sf.Name += "/sendfail=1"
			sf.Params["sendfail"] = 1
			th = append(th, sf)
			c5 := mk(me, 5, 1, 0)
			th = append(th, c5, mk(me, 5, 2, 40))
			if me == 1 {
				q = append(q, sf, c5)
			}
		}
		// two symbolic PREPREPAREs with a consumer that approves block-less proposals; a re-sync of the previous block
		// followed by a symbolic PREPREPARE / PREPARE
		for _, me := range []int{1, 2} {
			for _, pf := range []int{0, 3} {
				c := mk(me, pf, 2, 0)
				c.Name += "/lenient=1"
				c.Params["lenient"] = 1
				th = append(th, c)
				if me == 1 {
					q = append(q, c)
				}
			}
			for _, seq := range []int{90, 91, 94} {
				c := mk(me, 1, 2, seq)
				th = append(th, c)
				if me == 1 && seq == 90 {
					q = append(q, c)
				}
			}
		}
		for _, seq := range []int{4, 40, 44, 404, 440, 414, 441, 144, 43, 434, 34, 340, 341, 403, 413, 12, 120, 124, 412, 421, 241, 142, 466, 646, 664, 661, 616, 166, 665, 656, 460, 640} {
			for _, me := range []int{1, 2} {
				th = append(th, mk(me, 2, 3, seq), mk(me, 0, 3, seq))
			}
		}
		t["C10"] = &PropSpec{ID: "C10", Quick: q, Thorough: th,
			Assumptions: []string{"ideal signature registry, proposal/commitment stubs; committee of 4 equal weights"},
			Bounds:      []string{"one node (index 0..2) in prefix states fresh / proposal accepted / prepared / timed out with lock, then 2 (quick) or 2..3 (thorough) events, each a fully symbolic PREPREPARE / PREPARE / COMMIT / proof-less VIEW_CHANGE, an election timeout, the re-delivery of the previous message, or a well-formed NEW_VIEW (current or next view, symbolic block) from that view's leader; outbox invariants checked after every event; an adversarial message without influence ends the path"},
			Outside:     []string{"sequences longer than 3 events; NEW_VIEW and proof-carrying votes as events (their acceptance conditions are C07/C08; their effect on the outbox is exercised in C09/C11/C01 harnesses)"},
		}
	}

	// ---------------- C11 ----------------
	{
		mkV := func(me, sym int) RunConfig {
			c := rc(fmt.Sprintf("C11_Vote/me=%d/sym=%d", me, sym), ".", "C11_Vote", map[string]int{"me": me, "sym": sym})
			c.RequireReach = []string{"C11.VC.with_lock"}
			return c
		}
		mkN := func(sym, prep int) RunConfig {
			c := rc(fmt.Sprintf("C11_NewView/sym=%d/prepares=%d", sym, prep), ".", "C11_NewView", map[string]int{"sym": sym, "prepares": prep})
			c.RequireReach = []string{"C11.NV.emitted"}
			return c
		}
		mkP := func(me int) RunConfig {
			c := rc(fmt.Sprintf("C11_PrepareCommit/me=%d", me), ".", "C11_PrepareCommit", map[string]int{"me": me})
			c.RequireReach = []string{"C11.P.delivered", "C11.C.delivered"}
			return c
		}
		mkX := func(p, r int) RunConfig {
			c := rc(fmt.Sprintf("C11_NextViewPrepare/p=%d/r=%d", p, r), ".", "C11_NextViewPrepare", map[string]int{"p": p, "r": r})
			c.RequireReach = []string{"C11.P.future_view"}
			return c
		}
		// the adversarial PREPAREs carry 4 extra trailing bytes in their (validly signed) header
		tv := mkV(2, 1)
		tv.Name += "/trailing=4"
		tv.Params = map[string]int{"me": 2, "sym": 1, "trailing": 4}
		tn := mkN(1, 2)
		tn.Name += "/trailing=4"
		tn.Params = map[string]int{"sym": 1, "prepares": 2, "trailing": 4}
		hf := mkN(1, -1)
		hf.Name += "/honest_first=1"
		hf.Params = map[string]int{"sym": 1, "prepares": -1, "honest_first": 1}
		bl := rc("C11_BlocklessNewView", ".", "C11_BlocklessNewView", nil)
		bl.RequireReach = []string{"C11.blockless.committed", "C11.blockless.voted"}
		tn0 := mkN(1, -1)
		tn0.Name += "/trailing=4"
		tn0.Params = map[string]int{"sym": 1, "prepares": -1, "trailing": 4}
		// ... and the same headers signed over their canonical encoding (accepted; they must not resurface verbatim in proofs)
		tvc := mkV(2, 1)
		tvc.Name += "/trailing=-4"
		tvc.Params = map[string]int{"me": 2, "sym": 1, "trailing": -4}
		tvcr := tvc
		tvcr.Name += "/maps=reversed"
		tvcr.MapReverse = true
		tvcr.RequireReach = nil
		q := []RunConfig{tv, tvc, tvcr, tn, tn0, hf, bl, mkV(2, 1), mkV(3, 2), mkN(1, -1), mkN(1, 2), mkP(2), mkP(1), mkX(0, 3), mkX(3, 0), mkX(0, 2)}
		th := append([]RunConfig{}, q...)
		th = append(th, mkV(3, 1), mkV(2, 2), mkN(0, -1), mkN(2, -1), mkN(1, 0), mkN(1, 3), mkN(2, 0), mkP(3), mkX(2, 0), mkX(2, 3), mkX(3, 2)) // (two symbolic proof-carrying votes with 2 PREPARE senders each: 58 k paths and not finished in 25 min; outside)
		for _, me := range []int{0, 1, 2} {
			c := rc(fmt.Sprintf("C07_HighestProof/me=%d", me), ".", "C07_HighestProof", map[string]int{"me": me})
			c.RequireReach = []string{"C07.hp.highest_proposed"}
			th = append(th, c)
			if me == 2 {
				q = append(q, c)
			}
		}
		t["C11"] = &PropSpec{ID: "C11", Quick: q, Thorough: th, LabelPrefixes: []string{"C11."},
			Assumptions: []string{"ideal signature registry, proposal/commitment stubs; committee of 4 equal weights; producer and consumer are two real nodes sharing registry and committee"},
			Bounds:      []string{"producer accepts <=2 fully symbolic adversarial inputs (PREPAREs before its vote; VIEW_CHANGEs with/without proof before its NEW_VIEW) plus listed honest traffic; every VIEW_CHANGE / NEW_VIEW / PREPARE / COMMIT it then emits is delivered to a correct peer in a state satisfying the statement's precondition (leader of the addressed view; view not higher, no proposal yet)"},
			Outside:     []string{"more than 2 adversarial inputs; consumers in views above 1; committees other than 4"},
		}
	}
	// ---------------- C17 ----------------
	{
		mk := func(k int) RunConfig {
			c := rc(fmt.Sprintf("C17_Filter/ops=%d", k), ".", "C17_Filter", map[string]int{"ops": k})
			c.RequireReach = []string{"C17.advanced", "C17.delivered_from_cache"}
			c.MaxPaths = 2000000
			return c
		}
		mkv := func(k int) RunConfig { // messages of one kind with views from {0,1}: claimed sender, kind and view may repeat
			c := mk(k)
			c.Name += "/views=2"
			c.Params["views"] = 2
			return c
		}
		mkm := func(k int) RunConfig { // the handler may move the node to the next view of the same height while it handles a message
			c := mk(k)
			c.Name += "/viewmoves=1"
			c.Params["viewmoves"] = 1
			return c
		}
		q := []RunConfig{mkv(3), mk(4), mkm(3)}
		q[0].RequireReach = []string{"C17.advanced"}
		th := []RunConfig{mkv(3), mk(4), mkv(4), mk(5), mkm(3), mkm(4)}
		th[0].RequireReach = []string{"C17.advanced"}
		// the real worker: cached traffic that completes its height from inside the start of the round
		fr := rc("C13_FutureRound/me=1", ".", "C13_FutureRound", map[string]int{"me": 1})
		fr.RequireReach = []string{"C13.future.committed_from_cache"}
		q = append(q, fr)
		th = append(th, fr)
		for _, me := range []int{0, 1} {
			c := rc(fmt.Sprintf("C14_SyncDuringCommit/me=%d", me), ".", "C14_SyncDuringCommit", map[string]int{"me": me})
			c.RequireReach = []string{"C14.sync_during_commit"}
			q = append(q, c)
			th = append(th, c)
		}
		// many messages for one future height (no per-height capacity in the statement)
		for _, cnt := range []int{40, 150} {
			c := rc(fmt.Sprintf("C17_Flood/count=%d", cnt), ".", "C17_Flood", map[string]int{"count": cnt})
			c.RequireReach = []string{"C17.flood.done"}
			th = append(th, c)
			if cnt == 150 {
				q = append(q, c)
			}
		}
		lc := rc("C17_LeaveCommittee", ".", "C17_LeaveCommittee", nil)
		lc.RequireReach = []string{"C17.leave.done"}
		q = append(q, lc)
		th = append(th, lc)
		mlf := rc("C17_MainLoopForward", ".", "C17_MainLoopForward", nil)
		mlf.RequireReach = []string{"C17.main.future"}
		q = append(q, mlf)
		th = append(th, mlf)
		t["C17"] = &PropSpec{ID: "C17", Quick: q, Thorough: th, LabelPrefixes: []string{"C17."},
			Assumptions: []string{"messages are PREPAREs built with the real factory; the message number is carried in the (concrete) view field; reading of the ordering clause: 'before it' = before the node starts height H (DESIGN.md section 6/C17)"},
			Bounds:      []string{"k operations (quick 3 and 4, thorough up to 5), each a symbolic choice of receive(message with symbolic 64-bit height, symbolic instance, symbolic sender byte) or advance(symbolic larger height); start height symbolic >= 1; optionally the message handler moves the node to the next view of the same height at symbolic deliveries"},
			Outside:     []string{"sequences longer than 5 operations (except the flood of 150 messages for one future height, symbolic heights)"},
		}
	}

	// ---------------- C15 ----------------
	{
		var q, th []RunConfig
		for _, k := range []int{3, 4} {
			c := rc(fmt.Sprintf("C15_Registry/ops=%d", k), "state", "C15_Registry", map[string]int{"ops": k})
			c.RequireReach = []string{"C15.issued", "C15.some_cancelled"}
			q = append(q, c)
			th = append(th, c)
		}
		c5 := rc("C15_Registry/ops=5", "state", "C15_Registry", map[string]int{"ops": 5})
		c5.MaxPaths = 2000000
		th = append(th, c5)
		for site := 0; site <= 6; site++ {
			c := rc(fmt.Sprintf("C15_SPI/site=%d", site), ".", "C15_SPI", map[string]int{"site": site})
			q = append(q, c)
			th = append(th, c)
		}
		for ev := 0; ev <= 1; ev++ {
			c := rc(fmt.Sprintf("C15_MainLoop/event=%d", ev), ".", "C15_MainLoop", map[string]int{"event": ev})
			c.RequireReach = []string{"C15.main.forwarded"}
			q = append(q, c)
			th = append(th, c)
		}
		ps := rc("C15_MainLoop/event=0/parked_sync=1", ".", "C15_MainLoop", map[string]int{"event": 0, "parked_sync": 1})
		ps.RequireReach = []string{"C15.main.forwarded"}
		q = append(q, ps)
		th = append(th, ps)
		t["C15"] = &PropSpec{ID: "C15", Quick: q, Thorough: th,
			Assumptions: []string{"context model: context.WithCancel / Err / Done modelled by the engine (parent-child cancellation)", "SPI stubs perform a nondeterministic interference action (CancelOlderThan with symbolic argument, Shutdown, or nothing) standing for what the main loop can do while the worker is blocked in the call"},
			Bounds:      []string{"registry: k operations For/CancelOlderThan/Shutdown with symbolic 64-bit (height, view) arguments (k=3,4 quick; up to 5 thorough); 7 SPI call sites (first-leader proposal, proposal validation for the current and for the next view, elected-leader proposal, NEW_VIEW validation, committee polling, commit callback); main loop: one election trigger / one sync with symbolic position in the channel model, checked at the moment the event is forwarded to the worker"},
			Outside:     []string{"wall-clock promptness ('as soon as'); a consumer SPI that ignores its context; real goroutine scheduling"},
		}
	}

	// ---------------- C13 ----------------
	{
		var q, th []RunConfig
		for _, k := range []int{2, 3} {
			c := rc(fmt.Sprintf("C13_State/ops=%d", k), "state", "C13_State", map[string]int{"ops": k})
			q = append(q, c)
			th = append(th, c)
		}
		for _, me := range []int{0, 1} {
			c := rc(fmt.Sprintf("C13_Worker/me=%d/events=2", me), ".", "C13_Worker", map[string]int{"me": me, "events": 2})
			c.RequireReach = []string{"C13.committed"}
			q = append(q, c)
			c3 := rc(fmt.Sprintf("C13_Worker/me=%d/events=3", me), ".", "C13_Worker", map[string]int{"me": me, "events": 3})
			th = append(th, c, c3)
		}
		for _, me := range []int{1, 2, 3} {
			c := rc(fmt.Sprintf("C13_FutureRound/me=%d", me), ".", "C13_FutureRound", map[string]int{"me": me})
			c.RequireReach = []string{"C13.future.committed_from_cache"}
			th = append(th, c)
			if me == 1 {
				q = append(q, c)
			}
		}
		// the leader of view 0 alone holds the quorum weight
		hl := rc("C13_Worker/me=0/events=1/weights=7", ".", "C13_Worker", map[string]int{"me": 0, "events": 1, "weights": 7})
		hlf := rc("C13_Worker/me=0/events=1/weights=7/commit_fails=1", ".", "C13_Worker", map[string]int{"me": 0, "events": 1, "weights": 7, "commit_fails": 1})
		q = append(q, hl, hlf)
		th = append(th, hlf)
		th = append(th, hl, rc("C13_Worker/me=0/events=2/weights=7", ".", "C13_Worker", map[string]int{"me": 0, "events": 2, "weights": 7}))
		// the commit callback fails by panicking
		cp := rc("C13_CommitThenPrepared/me=2/commit_panics=1", ".", "C13_CommitThenPrepared", map[string]int{"me": 2, "commit_panics": 1})
		q = append(q, cp)
		th = append(th, cp)
		// the node alone holds the quorum weight and the cached proposal of the next height was retransmitted
		hv := rc("C13_FutureRound/me=3/weights=6/duplicate=1", ".", "C13_FutureRound", map[string]int{"me": 3, "weights": 6, "duplicate": 1})
		q = append(q, hv)
		th = append(th, hv)
		for _, me := range []int{0, 1} {
			c := rc(fmt.Sprintf("C14_SyncDuringCommit/me=%d", me), ".", "C14_SyncDuringCommit", map[string]int{"me": me})
			c.RequireReach = []string{"C14.sync_during_commit"}
			q = append(q, c)
			th = append(th, c)
		}
		for _, me := range []int{2, 3} {
			c := rc(fmt.Sprintf("C13_CommitThenPrepared/me=%d", me), ".", "C13_CommitThenPrepared", map[string]int{"me": me})
			c.RequireReach = []string{"C13.ctp.prepared_in_view1", "C13.ctp.moved_on"}
			th = append(th, c)
			if me == 2 {
				q = append(q, c)
			}
		}
		t["C13"] = &PropSpec{ID: "C13", Quick: q, Thorough: th, LabelPrefixes: []string{"C13."},
			StaticChecks: []func(eng *Engine) (string, bool, string){staticSingleWriter, staticStateAtomic},
			Assumptions:  []string{"sequential reduction: State methods are mutex-atomic and (statically checked each run) height/view are written only by the State mutators reached from the worker, so every interleaving of the two goroutines is a sequence of worker events with context cancellations interleaved at SPI calls"},
			Bounds:       []string{"State mutators: 2..3 operations with symbolic arguments from a symbolic state; worker: symbolic start height, then 2 (quick) / 3 (thorough) events out of {honest commit round with symbolic callback failure, sync to a symbolic height, election timeout, re-delivered traffic of the previous height}"},
			Outside:      []string{"the real two-goroutine scheduler (replaced by the reduction above)"},
		}
	}

	// ---------------- C14 ----------------
	{
		var q []RunConfig
		for _, me := range []int{0, 1} {
			c := rc(fmt.Sprintf("C14_Sync/me=%d", me), ".", "C14_Sync", map[string]int{"me": me})
			c.RequireReach = []string{"C14.synced", "C14.stale"}
			q = append(q, c)
		}
		for _, k := range []int{1, 2, 3} {
			for pre := 0; pre <= 1; pre++ {
				c := rc(fmt.Sprintf("C14_MainLoop/syncs=%d/prefilled=%d", k, pre), ".", "C14_MainLoop", map[string]int{"syncs": k, "prefilled": pre})
				c.RequireReach = []string{"C14.mainloop.done"}
				q = append(q, c)
			}
		}
		for _, me := range []int{0, 1} {
			c := rc(fmt.Sprintf("C14_SyncDuringCommit/me=%d", me), ".", "C14_SyncDuringCommit", map[string]int{"me": me})
			c.RequireReach = []string{"C14.sync_during_commit"}
			q = append(q, c)
		}
		// election triggers keep arriving while the worker (busy in an SPI call) takes nothing; then syncs
		for _, ne := range []int{1, 2} {
			c := rc(fmt.Sprintf("C14_MainLoop/syncs=1/prefilled=1/elections=%d", ne), ".", "C14_MainLoop", map[string]int{"syncs": 1, "prefilled": 1, "elections": ne})
			c.RequireReach = []string{"C14.mainloop.done"}
			q = append(q, c)
		}
		sdp := rc("C14_SyncDuringProposal", ".", "C14_SyncDuringProposal", nil)
		sdp.RequireReach = []string{"C14.sync_during_proposal"}
		q = append(q, sdp)
		// UpdateState while the worker's message queue is full (the worker is busy in a long SPI call)
		fq14 := rc("C12_FullQueue", ".", "C12_FullQueue", nil)
		fq14.MaxLoop = 1200
		fq14.RequireReach = []string{"C12.fullqueue.done"}
		q = append(q, fq14)
		t["C14"] = &PropSpec{ID: "C14", Quick: q, Thorough: q, LabelPrefixes: []string{"C14."},
			StaticChecks: []func(eng *Engine) (string, bool, string){staticSingleSender, staticSingleWriter, staticStateAtomic},
			Assumptions:  []string{"same sequential reduction as C13; the main loop is (statically checked) the only sender on the worker's update-state channel"},
			Bounds:       []string{"worker: symbolic start height and symbolic sync height (older / equal / newer), followed by a second older sync; main loop: 1..3 UpdateState calls with symbolic heights, worker channel empty or pre-filled, in the channel model; sync to a symbolic height handled by the main loop while the worker is inside the commit callback (the main loop runs from inside the callback until it parks)"},
			Outside:      []string{"real-time 'indefinitely'; syncs racing a commit on the real scheduler"},
		}
	}
	// second opinion in the thorough tier of the arithmetic checks: every verdict must come from two back ends
	for _, id := range []string{"C06", "C18", "C19"} {
		sp := t[id]
		th := append([]RunConfig{}, sp.Thorough...)
		for i := range th {
			th[i].Confirm = true
			if id == "C06" {
				// division by 3 and sums of 64-bit weights: only cvc5's integer blasting answers (section 5); a second
				// opinion would only burn the time limit on every assertion
				th[i].Confirm = false
			}
			if n, ok := th[i].Params["n"]; ok && id == "C18" && n&(n-1) != 0 {
				// remainder by a non-power-of-two: only cvc5's integer blasting answers (z3 and plain cvc5 time out, section
				// 5), so asking for a second opinion only burns the time limit 61 times
				th[i].Confirm = false
			}
		}
		sp.Thorough = th
		sp.Bounds = append(sp.Bounds, "thorough tier: each assertion verdict is accepted only if two SMT back ends (of cvc5 int-blasting, z3 5.1, cvc5) give it, when a second one answers within the time limit (C18: second opinion for committee sizes that are powers of two only, C06: none; for the other kernels only cvc5 int-blasting answers)")
	}

	// weighted committees: the single-node harnesses take their weights from the "weights" parameter; the thorough
	// tier repeats a spread of configurations with weights [1,2,3,4] (W=10, f=3, Q=7) and [3,1,1,1] (W=6, f=1, Q=5),
	// where "number of members" and "weight" no longer coincide; a few cheap ones also run in the quick tier
	for _, id := range []string{"C03", "C04", "C07", "C08", "C10", "C11"} {
		sp := t[id]
		var extra []RunConfig
		for i, c := range sp.Thorough {
			if _, has := c.Params["weights"]; has {
				continue
			}
			stride := 3
			if id == "C10" {
				stride = 17
			}
			if i%stride != 0 {
				continue
			}
			for _, w := range []int{2, 1} {
				if w == 1 && i%(2*stride) != 0 {
					continue
				}
				r := c
				r.Params = map[string]int{}
				for k, v := range c.Params {
					r.Params[k] = v
				}
				r.Params["weights"] = w
				r.Name += fmt.Sprintf("/weights=%d", w)
				r.RequireReach = nil // reachability is validated in the equal-weight runs
				extra = append(extra, r)
			}
		}
		sp.Thorough = append(sp.Thorough, extra...)
		sp.Bounds = append(sp.Bounds, "thorough tier: every third configuration (C10: every 17th) is repeated with committee weights [1,2,3,4], every sixth also with [3,1,1,1]")
	}
	for _, pick := range []struct{ id, name string }{{"C08", "C08_OneMessage/prefix=4/kind=VC/prepares=2"}, {"C08", "C08_OneMessage/prefix=2/kind=P"}, {"C03", "C03_Commits/me=1/honest=1/sym=2"}} {
		sp := t[pick.id]
		for _, c := range sp.Quick {
			if c.Name == pick.name {
				r := c
				r.Params = map[string]int{}
				for k, v := range c.Params {
					r.Params[k] = v
				}
				r.Params["weights"] = 2
				r.Name += "/weights=2"
				r.RequireReach = nil
				sp.Quick = append(sp.Quick, r)
				break
			}
		}
	}

	// map iteration order is unspecified in Go: the thorough tier repeats the runs whose outcome could depend on
	// it (stored votes / commits are collected by ranging over maps) with every map range reversed
	for _, id := range []string{"C03", "C04", "C09", "C11"} {
		sp := t[id]
		var extra []RunConfig
		for _, c := range sp.Thorough {
			r := c
			r.Name += "/maps=reversed"
			r.MapReverse = true
			r.RequireReach = nil // reach markers are validated natively in the forward-order runs
			extra = append(extra, r)
		}
		sp.Thorough = append(sp.Thorough, extra...)
		sp.Bounds = append(sp.Bounds, "map ranges are iterated in insertion order; the thorough tier repeats every configuration with all map ranges reversed (Go's order is random; other permutations are outside)")
	}

	// ---------------- C01 ----------------
	{
		mk := func(byz, prefix, timeout, steps, kinds, class, redeliver, recipients int) RunConfig {
			c := rc(fmt.Sprintf("C01_Run/byz=%d/prefix=%d/timeout=%d/kinds=%0*d/class=%d/redeliver=%d/recipients=%d", byz, prefix, timeout, steps, kinds, class, redeliver, recipients), ".", "C01_Run",
				map[string]int{"byz": byz, "prefix": prefix, "timeout": timeout, "steps": steps, "kinds": kinds, "class": class, "redeliver": redeliver, "recipients": recipients, "byzvote": 0, "debug": 0, "weights": 0})
			c.MaxPaths = 600000
			return c
		}
		// two consecutive timeouts (first votes lost) + the Byzantine member's genuine proof-less vote, then PREPARE and COMMIT
		dbl := mk(1, 2, 2, 1, 2, 0, 1, 3)
		dbl.Name += "/byzvote=1"
		dbl.Params["byzvote"] = 1
		q := []RunConfig{
			mk(1, 2, 1, 2, 2, 1, 0, 3),  // known-finding class S7: bare PREPREPARE(view>0) then COMMIT
			mk(1, 2, 1, 2, 2, 2, 0, 3),  // same with the class excluded
			mk(1, 2, 1, 2, 52, 0, 0, 3), // forged / replayed NEW_VIEW then COMMIT
			mk(1, 2, 1, 2, 62, 0, 0, 3), // NEW_VIEW with a proof-carrying vote then COMMIT
			mk(1, 2, 1, 1, 5, 0, 1, -1), // NEW_VIEW to a symbolic subset, then all delayed honest traffic arrives
			mk(1, 2, 1, 2, 12, 0, 0, 3), // PREPARE then COMMIT
			mk(1, 1, 1, 2, 22, 0, 1, 3), // two COMMITs, all locked, nobody committed yet
			dbl,
			mk(0, 3, 0, 1, 2, 0, 0, 1), // Byzantine first leader equivocated (Y side committed); one symbolic COMMIT to the X side
		}
		// prefix 5: the view-1 proposal was adopted but not prepared; the Byzantine leader of view 2 sends one symbolic
		// NEW_VIEW and then goes along (genuine PREPARE / COMMIT) with whatever the correct nodes prepared
		// deep prefix: weights 1,2,3,4 (Byzantine weight 1), views up to 6; one symbolic proof-carrying vote to
		// the correct leader of view 6 while the honest votes for that view are in flight
		deep := mk(0, 4, 5, 1, 4, 0, 0, -1)
		deep.Name += "/weights=1"
		deep.Params["weights"] = 1
		deep.RequireReach = []string{"C01.two_commits"}
		q = append(q, deep)
		// prefix 7: the Byzantine member led view 1 (one node committed there) and leads view 5: one symbolic NEW_VIEW, then
		// it goes along with whatever the two locked nodes prepared
		bl7 := mk(1, 7, 0, 1, 5, 0, 0, 3)
		bl7.Name += "/byzfollow=1"
		bl7.Params["byzfollow"] = 1
		bl7.RequireReach = []string{"C01.some_commit"}
		q = append(q, bl7)
		// prefix 9: a second proposal for a view in which a NEW_VIEW was already adopted
		sp := mk(1, 9, 0, 1, 2, 0, 0, 3)
		sp.RequireReach = []string{"C01.some_commit"}
		q = append(q, sp)
		// prefix 8: an early Byzantine COMMIT must not stand in for the PREPAREs a node never received
		ec := mk(3, 8, 0, 1, 2, 0, 0, 3)
		ec.RequireReach = []string{"C01.some_commit"}
		q = append(q, ec)
		// prefix 6: a node locked twice must vote with its latest lock (no forgery anywhere), then one symbolic COMMIT
		locks := mk(2, 6, 0, 1, 2, 0, 0, 3)
		locks.RequireReach = []string{"C01.two_commits"}
		q = append(q, locks)
		lossy5 := mk(2, 5, 0, 1, 5, 0, 0, 3)
		lossy5.Name += "/byzfollow=1"
		lossy5.Params["byzfollow"] = 1
		lossy5.RequireReach = []string{"C01.some_commit"}
		q = append(q, lossy5)
		q[2].RequireReach = []string{"C01.some_commit"}
		th := append([]RunConfig{}, q...)
		// prefix 5 with a proof-carrying vote in the symbolic NEW_VIEW
		lossy6 := mk(2, 5, 0, 1, 6, 0, 0, 3)
		lossy6.Name += "/byzfollow=1"
		lossy6.Params["byzfollow"] = 1
		th = append(th, lossy6)
		eq := mk(0, 0, 0, 2, 0, 0, 1, -1) // Byzantine first leader: two proposals to symbolic subsets (class 0: view unrestricted)
		eq.Params["kinds"] = 0
		th = append(th, eq)
		th = append(th, mk(1, 2, 2, 3, 312, 0, 0, 3),
			mk(1, 2, 1, 2, 2, 2, 0, -1), mk(1, 2, 1, 2, 52, 0, 0, -1), mk(1, 2, 1, 2, 32, 0, 0, 3), mk(1, 2, 1, 2, 42, 0, 0, 3),
			mk(1, 1, 1, 2, 52, 0, 0, 3), mk(1, 1, 1, 2, 2, 2, 1, 3), mk(3, 2, 1, 2, 52, 0, 0, 3), mk(3, 2, 1, 2, 2, 2, 0, 3),
			mk(1, 2, 1, 3, 522, 0, 0, 3), mk(1, 2, 1, 3, 122, 0, 0, 3), mk(0, 0, 0, 3, 2, 2, 0, 3), mk(0, 0, 1, 2, 52, 0, 1, 3))
		th[len(th)-2].Params["kinds"] = 2 // 002
		for _, t := range []int{1, 2, 4} {
			d := mk(0, 4, t, 1, 4, 0, 0, -1)
			d.Name += "/weights=1"
			d.Params["weights"] = 1
			th = append(th, d)
		}
		for _, k := range []int{5, 6} {
			d := mk(0, 4, 5, 1, k, 0, 0, -1)
			d.Name += "/weights=1"
			d.Params["weights"] = 1
			th = append(th, d)
		}
		th = append(th, mk(0, 4, 5, 3, 412, 0, 0, 3), mk(0, 4, 5, 2, 42, 0, 0, 3))
		t["C01"] = &PropSpec{ID: "C01", Quick: q, Thorough: th, LabelPrefixes: []string{"C01."},
			Assumptions: []string{"ideal signature registry with the unforgeability assumption: genuine signatures only under the Byzantine member's and outsiders' keys, byte-exact replays of anything signed earlier in the run allowed", "proposal validation / commitment stubs; committee of 4 equal weights (f=1), one Byzantine member", "honest traffic is flushed FIFO to all correct nodes after each adversarial step; message loss only as listed in the prefixes; optional re-delivery of everything sent so far (delay/duplication)"},
			Bounds:      []string{"n=4, one Byzantine member (index 1 quick; 0,1,3 thorough); prefixes: nothing / equivocation of a Byzantine first leader with one side committed / all correct nodes locked on the honest view-0 proposal / additionally one correct node committed it with the help of a genuine Byzantine COMMIT, each optionally followed by one or two rounds of election timeouts (the votes of the first being lost); deeper listed prefixes: 4 (Byzantine first leader keeps PREPAREs of X, honest view 1 commits Y at one node, views up to 6, weights 1,2,3,4), 5 (view-1 re-proposal adopted but not prepared, Byzantine-led view 2), 6 (a node locked twice), 7 (the Byzantine member led view 1, where one node committed, and leads view 5), 8 (an early Byzantine COMMIT at a node that never receives the PREPAREs), 9 (a second proposal for a view in which a NEW_VIEW was adopted), the last four followed by the listed concrete action (the Byzantine member sends genuine PREPARE and COMMIT for whatever the correct nodes prepared last); then <=2 (quick) / <=3 (thorough) fully symbolic adversarial multicasts of listed kinds (PREPREPARE, PREPARE, COMMIT, VIEW_CHANGE with/without proof, NEW_VIEW with 3 votes with/without proof) to a fixed or symbolic subset of correct nodes"},
			Outside:     []string{"this is NOT a proof of agreement for all schedules: anything beyond the listed prefixes, more than 3 adversarial steps, other delivery orders, committees > 4, more than one Byzantine member"},
		}
	}
	return t
}
