package main

// Solver processes and per-path sessions.

import (
	"bufio"
	"context"
	"fmt"
	"io"
	"os"
	"os/exec"
	"strings"
	"sync"
	"sync/atomic"
	"time"
)

type SolverStats struct {
	Sat, Unsat, Unknown int64
	Nanos               int64
	Errors              int64
	PortfolioCalls      int64
}

var gStats = map[string]*SolverStats{}
var gStatsMu sync.Mutex

func statsFor(name string) *SolverStats {
	gStatsMu.Lock()
	defer gStatsMu.Unlock()
	s := gStats[name]
	if s == nil {
		s = &SolverStats{}
		gStats[name] = s
	}
	return s
}

func (s *SolverStats) record(res string, d time.Duration) {
	switch res {
	case "sat":
		atomic.AddInt64(&s.Sat, 1)
	case "unsat":
		atomic.AddInt64(&s.Unsat, 1)
	default:
		atomic.AddInt64(&s.Unknown, 1)
	}
	atomic.AddInt64(&s.Nanos, int64(d))
}

// SolverProc is a persistent incremental solver (z3 -in).
type SolverProc struct {
	name string
	cmd  *exec.Cmd
	in   io.WriteCloser
	out  *bufio.Reader
	dead bool
}

func startZ3(timeoutMs int) (*SolverProc, error) {
	cmd := exec.Command("z3", "-in", fmt.Sprintf("-t:%d", timeoutMs))
	in, err := cmd.StdinPipe()
	if err != nil {
		return nil, err
	}
	out, err := cmd.StdoutPipe()
	if err != nil {
		return nil, err
	}
	cmd.Stderr = os.Stderr
	if err := cmd.Start(); err != nil {
		return nil, err
	}
	return &SolverProc{name: "z3", cmd: cmd, in: in, out: bufio.NewReaderSize(out, 1<<20)}, nil
}

func (p *SolverProc) Close() {
	if p == nil || p.dead {
		return
	}
	p.dead = true
	p.in.Close()
	p.cmd.Process.Kill()
	p.cmd.Wait()
}

// roundTrip sends text and reads output lines until the sentinel echo.
func (p *SolverProc) roundTrip(text string) ([]string, error) {
	if p.dead {
		return nil, fmt.Errorf("solver dead")
	}
	if _, err := io.WriteString(p.in, text+"\n(echo \"@@DONE\")\n"); err != nil {
		p.dead = true
		return nil, err
	}
	var lines []string
	for {
		l, err := p.out.ReadString('\n')
		if err != nil {
			p.dead = true
			return lines, err
		}
		l = strings.TrimSpace(l)
		if l == "@@DONE" || l == "\"@@DONE\"" {
			return lines, nil
		}
		if l != "" {
			lines = append(lines, l)
		}
	}
}

// Session: the definitions and assertions of one path.
type Session struct {
	tt      *TermTable
	defined map[int]bool
	lines   []string // everything emitted so far (definitions + asserts), for standalone scripts
	sent    int      // number of lines already sent to the incremental solver
	z3      *SolverProc
	vars    []*Term
	varSeen map[int]bool
	cfg     *RunConfig
}

func NewSession(tt *TermTable, z3 *SolverProc, cfg *RunConfig) *Session {
	return &Session{tt: tt, defined: map[int]bool{}, varSeen: map[int]bool{}, z3: z3, cfg: cfg}
}

// define emits declarations/definitions for t and everything below it.
func (s *Session) define(t *Term) {
	if t.op == OConst || s.defined[t.id] {
		return
	}
	// iterative post-order
	type item struct {
		t *Term
		i int
	}
	stack := []item{{t, 0}}
	for len(stack) > 0 {
		top := &stack[len(stack)-1]
		if top.t.op == OConst || s.defined[top.t.id] {
			stack = stack[:len(stack)-1]
			continue
		}
		if top.i < len(top.t.args) {
			a := top.t.args[top.i]
			top.i++
			if a.op != OConst && !s.defined[a.id] {
				stack = append(stack, item{a, 0})
			}
			continue
		}
		x := top.t
		stack = stack[:len(stack)-1]
		s.defined[x.id] = true
		if x.op == OVar {
			s.lines = append(s.lines, fmt.Sprintf("(declare-const %s %s)", x.ref(), sortStr(x)))
			if !s.varSeen[x.id] {
				s.varSeen[x.id] = true
				s.vars = append(s.vars, x)
			}
		} else {
			s.lines = append(s.lines, fmt.Sprintf("(define-fun %s () %s %s)", x.ref(), sortStr(x), x.body()))
		}
	}
}

func (s *Session) Assert(t *Term) {
	if t.IsTrue() {
		return
	}
	s.define(t)
	s.lines = append(s.lines, fmt.Sprintf("(assert %s)", t.ref()))
}

func (s *Session) flush() error {
	if s.sent == len(s.lines) {
		return nil
	}
	txt := strings.Join(s.lines[s.sent:], "\n")
	s.sent = len(s.lines)
	out, err := s.z3.roundTrip(txt)
	if err != nil {
		return err
	}
	for _, l := range out {
		if strings.Contains(l, "(error") {
			atomic.AddInt64(&statsFor("z3").Errors, 1)
			return fmt.Errorf("solver error: %s", l)
		}
	}
	return nil
}

// Model maps variable name -> value (bv as uint64, bool as 0/1).
type Model map[string]uint64

// CheckZ3 asks whether pc ∧ extra is satisfiable: the configured feasibility back end
// (one-shot cvc5 with integer blasting for arithmetic harnesses) or the incremental z3.
func (s *Session) CheckZ3(extra *Term, wantModel bool) (string, Model) {
	if s.cfg != nil && s.cfg.FeasSolver != "" {
		if extra != nil && extra.IsFalse() {
			return "unsat", nil
		}
		r, m, _ := s.Portfolio(extra, wantModel, []string{s.cfg.FeasSolver}, 15)
		if r != "unknown" {
			return r, m
		}
	}
	return s.checkZ3inc(extra, wantModel)
}

func (s *Session) checkZ3inc(extra *Term, wantModel bool) (string, Model) {
	if extra != nil {
		if extra.IsFalse() {
			return "unsat", nil
		}
		s.define(extra)
	}
	if err := s.flush(); err != nil {
		return "unknown", nil
	}
	var sb strings.Builder
	sb.WriteString("(push)\n")
	if extra != nil && !extra.IsTrue() {
		fmt.Fprintf(&sb, "(assert %s)\n", extra.ref())
	}
	sb.WriteString("(check-sat)\n")
	start := time.Now()
	out, err := s.z3.roundTrip(sb.String())
	res := "unknown"
	if err == nil {
		for _, l := range out {
			if strings.Contains(l, "(error") {
				atomic.AddInt64(&statsFor("z3").Errors, 1)
				res = "unknown"
				break
			}
			if l == "sat" || l == "unsat" || l == "unknown" {
				res = l
			}
		}
	}
	statsFor("z3").record(res, time.Since(start))
	var m Model
	if res == "sat" && wantModel {
		m = s.getModel()
	}
	s.z3.roundTrip("(pop)")
	return res, m
}

func (s *Session) getModel() Model {
	m := Model{}
	var names []string
	for _, v := range s.vars {
		if v.kind == KFP {
			continue
		}
		names = append(names, v.ref())
	}
	if len(names) == 0 {
		return m
	}
	out, err := s.z3.roundTrip("(get-value (" + strings.Join(names, " ") + "))")
	if err != nil {
		return m
	}
	parseModel(strings.Join(out, " "), m)
	return m
}

func parseModel(txt string, m Model) {
	// ((v_a #x00) (v_b true) ...)
	toks := strings.Fields(strings.NewReplacer("(", " ( ", ")", " ) ").Replace(txt))
	for i := 0; i+1 < len(toks); i++ {
		if strings.HasPrefix(toks[i], "v_") {
			name := strings.ReplaceAll(strings.TrimPrefix(toks[i], "v_"), "@", "#")
			v := toks[i+1]
			switch {
			case v == "true":
				m[name] = 1
			case v == "false":
				m[name] = 0
			case strings.HasPrefix(v, "#x"):
				var x uint64
				fmt.Sscanf(v[2:], "%x", &x)
				m[name] = x
			case strings.HasPrefix(v, "#b"):
				var x uint64
				fmt.Sscanf(v[2:], "%b", &x)
				m[name] = x
			case v == "(":
				// (_ bv123 64)
				if i+3 < len(toks) && toks[i+2] == "_" && strings.HasPrefix(toks[i+3], "bv") {
					var x uint64
					fmt.Sscanf(toks[i+3][2:], "%d", &x)
					m[name] = x
				}
			}
		}
	}
}

// Script returns a standalone SMT-LIB script for pc ∧ extra.
func (s *Session) Script(extra *Term, wantModel bool) string {
	if extra != nil {
		s.define(extra)
	}
	var sb strings.Builder
	sb.WriteString("(set-logic ALL)\n")
	for _, l := range s.lines {
		sb.WriteString(l)
		sb.WriteByte('\n')
	}
	if extra != nil && !extra.IsTrue() {
		fmt.Fprintf(&sb, "(assert %s)\n", extra.ref())
	}
	sb.WriteString("(check-sat)\n")
	if wantModel {
		var names []string
		for _, v := range s.vars {
			if v.kind != KFP {
				names = append(names, v.ref())
			}
		}
		if len(names) > 0 {
			sb.WriteString("(get-value (" + strings.Join(names, " ") + "))\n")
		}
	}
	return sb.String()
}

type backend struct {
	name string
	argv []string
}

func backends(timeoutS int) []backend {
	ms := fmt.Sprintf("%d", timeoutS*1000)
	return []backend{
		{"cvc5-int", []string{"cvc5", "--lang=smt2", "--produce-models", "--solve-bv-as-int=sum", "--tlimit=" + ms}},
		{"cvc5", []string{"cvc5", "--lang=smt2", "--produce-models", "--tlimit=" + ms}},
		{"z3-new", []string{"z3-new", "-smt2", "-in", "-T:" + fmt.Sprintf("%d", timeoutS)}},
		{"z3", []string{"z3", "-smt2", "-in", "-T:" + fmt.Sprintf("%d", timeoutS)}},
	}
}

func runOneShot(ctx context.Context, b backend, script string, timeoutS int) (string, string) {
	cctx, cancel := context.WithTimeout(ctx, time.Duration(timeoutS+5)*time.Second)
	defer cancel()
	cmd := exec.CommandContext(cctx, b.argv[0], b.argv[1:]...)
	cmd.Stdin = strings.NewReader(script)
	var outb strings.Builder
	cmd.Stdout = &outb
	cmd.Stderr = &outb
	start := time.Now()
	cmd.Run()
	out := outb.String()
	res := "unknown"
	for _, l := range strings.Split(out, "\n") {
		l = strings.TrimSpace(l)
		if l == "sat" || l == "unsat" {
			res = l
			break
		}
		if l == "unknown" || l == "timeout" {
			break
		}
		if strings.Contains(l, "(error") || strings.HasPrefix(l, "Error") {
			// an error before the verdict: the solver may have dropped an assertion -> inconclusive
			atomic.AddInt64(&statsFor(b.name).Errors, 1)
			break
		}
	}
	if ctx.Err() == nil {
		statsFor(b.name).record(res, time.Since(start))
	}
	return res, out
}

// Portfolio runs the standalone script on the selected back ends in parallel
// and returns the first definitive answer. If `confirm` is set, an unsat
// answer must be given by two different back ends (or the single remaining
// ones must not contradict it).
func (s *Session) Portfolio(extra *Term, wantModel bool, names []string, timeoutS int) (string, Model, string) {
	script := s.Script(extra, wantModel)
	all := backends(timeoutS)
	var sel []backend
	for _, n := range names {
		for _, b := range all {
			if b.name == n {
				sel = append(sel, b)
			}
		}
	}
	type ans struct {
		res, out, by string
	}
	ch := make(chan ans, len(sel))
	ctx, cancelAll := context.WithCancel(context.Background())
	defer cancelAll()
	for _, b := range sel {
		b := b
		go func() {
			r, o := runOneShot(ctx, b, script, timeoutS)
			ch <- ans{r, o, b.name}
		}()
	}
	var got []ans
	need := 1
	if s.cfg != nil && s.cfg.Confirm && len(sel) > 1 {
		need = 2 // second opinion: two back ends must give the same definitive answer (if a second one answers at all)
	}
	var first *ans
	for range sel {
		a := <-ch
		got = append(got, a)
		if a.res == "sat" || a.res == "unsat" {
			for _, g := range got {
				if (g.res == "sat" || g.res == "unsat") && g.res != a.res {
					return "unknown", nil, "disagreement:" + g.by + "/" + a.by
				}
			}
			if first == nil {
				cp := a
				first = &cp
				if need == 1 {
					break
				}
				continue
			}
			// confirmed by a second back end
			var m Model
			if first.res == "sat" && wantModel {
				m = Model{}
				parseModel(first.out, m)
			}
			return first.res, m, first.by + "+" + a.by
		}
	}
	if first != nil {
		var m Model
		if first.res == "sat" && wantModel {
			m = Model{}
			parseModel(first.out, m)
		}
		return first.res, m, first.by
	}
	return "unknown", nil, ""
}
