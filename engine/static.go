package main

// Static premises of the sequential reduction used by C13/C14 (reported in evidence; not solver results).

import (
	"fmt"
	"go/types"
	"sort"
	"strings"

	"golang.org/x/tools/go/ssa"
	"golang.org/x/tools/go/ssa/ssautil"
)

func repoFunctions(eng *Engine) []*ssa.Function {
	var out []*ssa.Function
	for f := range ssautil.AllFunctions(eng.prog) {
		if f.Pkg == nil || !strings.HasPrefix(f.Pkg.Pkg.Path(), repoPkg) {
			continue
		}
		p := f.Pkg.Pkg.Path()
		if strings.Contains(p, "zzverif") || strings.HasPrefix(p, repoPkg+"/test") {
			continue
		}
		pos := eng.prog.Fset.Position(f.Pos())
		if strings.Contains(pos.Filename, "zz_verif_") || strings.HasSuffix(pos.Filename, "_test.go") {
			continue
		}
		out = append(out, f)
	}
	sort.Slice(out, func(i, j int) bool { return out[i].String() < out[j].String() })
	return out
}

func fieldOf(v ssa.Value) (structName string, field string, ok bool) {
	fa, isFA := v.(*ssa.FieldAddr)
	if !isFA {
		return "", "", false
	}
	pt, isP := fa.X.Type().Underlying().(*types.Pointer)
	if !isP {
		return "", "", false
	}
	st, isS := pt.Elem().Underlying().(*types.Struct)
	if !isS {
		return "", "", false
	}
	name := pt.Elem().String()
	return name, st.Field(fa.Field).Name(), true
}

// staticSingleWriter: State.height / State.view are stored only by the State mutators, and the
// test-only SetHeightView has no caller in non-test code.
func staticSingleWriter(eng *Engine) (string, bool, string) {
	ok := true
	var notes []string
	stateT := repoPkg + "/state.State"
	for _, f := range repoFunctions(eng) {
		for _, b := range f.Blocks {
			for _, in := range b.Instrs {
				switch in := in.(type) {
				case *ssa.Store:
					if sn, fn, isF := fieldOf(in.Addr); isF && sn == stateT && (fn == "height" || fn == "view") {
						name := f.Name()
						if !(f.Pkg.Pkg.Path() == repoPkg+"/state" && (name == "SetView" || name == "SetHeightAndResetView" || name == "SetHeightView" || name == "NewState")) {
							ok = false
							notes = append(notes, "unexpected writer of State."+fn+": "+f.String())
						}
					}
				case ssa.CallInstruction:
					if callee := in.Common().StaticCallee(); callee != nil && callee.Name() == "SetHeightView" && callee.Pkg != nil && callee.Pkg.Pkg.Path() == repoPkg+"/state" {
						ok = false
						notes = append(notes, "non-test caller of SetHeightView: "+f.String())
					}
				}
			}
		}
	}
	return "C13.static.single_writer", ok, strings.Join(notes, "; ")
}

// staticSingleSender: only MainLoop methods send on WorkerLoop.workerUpdateStateChannel / electionChannel.
func staticSingleSender(eng *Engine) (string, bool, string) {
	ok := true
	var notes []string
	wl := repoPkg + ".WorkerLoop"
	isWorkerChan := func(v ssa.Value) (string, bool) {
		// the channel value is loaded from a FieldAddr of WorkerLoop
		if u, isU := v.(*ssa.UnOp); isU {
			if sn, fn, isF := fieldOf(u.X); isF && sn == wl && (fn == "workerUpdateStateChannel" || fn == "electionChannel") {
				return fn, true
			}
		}
		return "", false
	}
	senders := map[string]bool{}
	for _, f := range repoFunctions(eng) {
		for _, b := range f.Blocks {
			for _, in := range b.Instrs {
				switch in := in.(type) {
				case *ssa.Send:
					if fn, isW := isWorkerChan(in.Chan); isW {
						senders[f.String()+" -> "+fn] = true
					}
				case *ssa.Select:
					for _, st := range in.States {
						if st.Dir == types.SendOnly {
							if fn, isW := isWorkerChan(st.Chan); isW {
								senders[f.String()+" -> "+fn] = true
							}
						}
					}
				}
			}
		}
	}
	for s := range senders {
		if !strings.HasPrefix(s, "(*"+repoPkg+".MainLoop).") {
			// the channel may also be passed through a local variable: MainLoop helper methods load it into a local first
			ok = false
			notes = append(notes, "unexpected sender: "+s)
		}
	}
	// senders that copy the channel into a local first (msgChannel := m.worker.workerUpdateStateChannel) are found by name
	for _, f := range repoFunctions(eng) {
		n := f.Name()
		if n == "sendUpdateMessageNonBlocking" || n == "sendElectionMessageNonBlocking" {
			if f.Signature.Recv() == nil || !strings.Contains(f.Signature.Recv().Type().String(), "MainLoop") {
				ok = false
				notes = append(notes, "sender helper is not a MainLoop method: "+f.String())
			}
			senders[f.String()] = true
		}
	}
	var list []string
	for s := range senders {
		list = append(list, s)
	}
	sort.Strings(list)
	if len(list) == 0 {
		ok = false
		notes = append(notes, "no sender found (premise cannot be checked)")
	}
	return "C14.static.single_sender", ok, fmt.Sprintf("senders=%v %s", list, strings.Join(notes, "; "))
}

// staticStateAtomic: the premise "State methods are mutex-atomic" of the sequential reduction. Every function that
// loads or stores State.height / State.view (a) belongs to package state, (b) takes the State's own lock (Lock or
// RLock on the embedded RWMutex) before the first access and (c) HeightView(), which hands out the observable pair,
// reads both fields itself (one critical section) instead of composing other accessors.
func staticStateAtomic(eng *Engine) (string, bool, string) {
	ok := true
	var notes []string
	stateT := repoPkg + "/state.State"
	for _, f := range repoFunctions(eng) {
		touches := map[string]bool{}
		locks := false
		for _, b := range f.Blocks {
			for _, in := range b.Instrs {
				switch in := in.(type) {
				case *ssa.FieldAddr:
					if sn, fn, isF := fieldOf(in); isF && sn == stateT && (fn == "height" || fn == "view") {
						touches[fn] = true
					}
				case ssa.CallInstruction:
					if callee := in.Common().StaticCallee(); callee != nil {
						n := callee.String()
						if n == "(*sync.RWMutex).Lock" || n == "(*sync.RWMutex).RLock" {
							locks = true
						}
					}
				}
			}
		}
		if len(touches) == 0 {
			if f.Name() == "HeightView" && f.Pkg != nil && f.Pkg.Pkg.Path() == repoPkg+"/state" && f.Signature.Recv() != nil && strings.HasSuffix(f.Signature.Recv().Type().String(), "state.State") {
				ok = false
				notes = append(notes, "(*State).HeightView does not read the fields itself: the (height, view) pair is not one atomic snapshot")
			}
			continue
		}
		if f.Name() == "NewState" {
			continue
		}
		if f.Pkg == nil || f.Pkg.Pkg.Path() != repoPkg+"/state" {
			ok = false
			notes = append(notes, "State.height/view accessed outside package state: "+f.String())
		}
		if !locks {
			ok = false
			notes = append(notes, "State.height/view accessed without taking the lock: "+f.String())
		}
		if f.Name() == "HeightView" && !(touches["height"] && touches["view"]) {
			ok = false
			notes = append(notes, "(*State).HeightView reads only part of the pair under its lock")
		}
	}
	return "C13.static.state_atomic", ok, strings.Join(notes, "; ")
}
