package main

// Symbolic-index element pointers: `&s[i]` with a symbolic i whose only uses are field selections and
// loads is kept symbolic and the load is merged with ite-terms over the elements, instead of forking the
// path once per feasible index.

import (
	"go/token"

	"golang.org/x/tools/go/ssa"
)

type SymPtrV struct {
	elems []Value
	idx   *Term // 64-bit, known (by the path condition) to be < len(elems)
	path  []int
}

// onlyLoaded: every use of v is a load or a field selection that is itself only loaded.
func onlyLoaded(v ssa.Value, depth int) bool {
	refs := v.Referrers()
	if refs == nil || depth > 4 {
		return false
	}
	for _, r := range *refs {
		switch r := r.(type) {
		case *ssa.UnOp:
			if r.Op != token.MUL {
				return false
			}
		case *ssa.FieldAddr:
			if !onlyLoaded(r, depth+1) {
				return false
			}
		case *ssa.DebugRef:
		default:
			return false
		}
	}
	return true
}

func project(v Value, path []int) Value {
	for _, f := range path {
		v = v.(StructV)[f]
	}
	return v
}

// mergeVals returns ite(conds[0], vals[0], ite(conds[1], vals[1], ... vals[n-1])) or ok=false.
func (ex *Exec) mergeVals(conds []*Term, vals []Value) (Value, bool) {
	tt := ex.tt
	switch v0 := vals[0].(type) {
	case *Term:
		res := vals[len(vals)-1].(*Term)
		for i := len(vals) - 2; i >= 0; i-- {
			t, ok := vals[i].(*Term)
			if !ok || t.kind != res.kind || t.w != res.w {
				return nil, false
			}
			res = tt.Ite(conds[i], t, res)
		}
		return res, true
	case StructV:
		out := make(StructV, len(v0))
		for f := range v0 {
			fv := make([]Value, len(vals))
			for i, v := range vals {
				s, ok := v.(StructV)
				if !ok || len(s) != len(v0) {
					return nil, false
				}
				fv[i] = s[f]
			}
			m, ok := ex.mergeVals(conds, fv)
			if !ok {
				return nil, false
			}
			out[f] = m
		}
		return out, true
	case SliceV:
		n := len(v0.data)
		for _, v := range vals {
			s, ok := v.(SliceV)
			if !ok || len(s.data) != n || s.nil_ != v0.nil_ {
				return nil, false
			}
		}
		if v0.nil_ || n == 0 {
			return v0, true
		}
		data := make([]Value, n)
		for k := 0; k < n; k++ {
			ev := make([]Value, len(vals))
			for i, v := range vals {
				ev[i] = v.(SliceV).data[k]
			}
			m, ok := ex.mergeVals(conds, ev)
			if !ok {
				return nil, false
			}
			data[k] = m
		}
		return SliceV{data: data}, true
	case StrV:
		for _, v := range vals {
			s, ok := v.(StrV)
			if !ok || s.Len() != v0.Len() {
				return nil, false
			}
		}
		n := v0.Len()
		bs := make([]*Term, n)
		for k := 0; k < n; k++ {
			ev := make([]Value, len(vals))
			for i, v := range vals {
				ev[i] = v.(StrV).Bytes(tt)[k]
			}
			m, ok := ex.mergeVals(conds, ev)
			if !ok {
				return nil, false
			}
			bs[k] = m.(*Term)
		}
		return mkStr(tt, bs), true
	}
	// identical values need no merging
	for _, v := range vals[1:] {
		if !sameValue(vals[0], v) {
			return nil, false
		}
	}
	return vals[0], true
}

func (ex *Exec) loadSym(p *SymPtrV) Value {
	n := len(p.elems)
	conds := make([]*Term, n)
	vals := make([]Value, n)
	for i := 0; i < n; i++ {
		conds[i] = ex.tt.Eq(p.idx, ex.tt.BV(64, uint64(i)))
		vals[i] = project(p.elems[i], p.path)
	}
	if m, ok := ex.mergeVals(conds, vals); ok {
		return copyVal(m)
	}
	// not mergeable: fork on the index
	i := ex.concretizeRange(p.idx, 0, uint64(n-1))
	return copyVal(project(p.elems[i], p.path))
}
