package main

// SMT terms with hash-consing and local simplification.
// Sorts: Bool, BitVec(w) with w<=64 (plus wide concat up to 128 for
// intermediate use), Float64.

import (
	"fmt"
	"math"
	"math/bits"
	"strconv"
	"strings"
)

type Kind uint8

const (
	KBool Kind = iota
	KBV
	KFP
)

type Op uint8

const (
	OConst Op = iota
	OVar
	// bv
	OAdd
	OSub
	OMul
	OUDiv
	OURem
	OSDiv
	OSRem
	OAnd
	OOr
	OXor
	ONot
	ONeg
	OShl
	OLshr
	OAshr
	OConcat
	OExtract // p1=hi p2=lo
	OZext    // to width w
	OSext
	OIte
	// bool results
	OEq
	OUlt
	OUle
	OSlt
	OSle
	OBAnd
	OBOr
	OBNot
	// fp
	OFDiv
	OFMul
	OFAdd
	OFSub
	OFNeg
	OFLt
	OFLe
	OFEq
	OFFloor  // roundToIntegral RTN
	OFTrunc  // roundToIntegral RTZ
	OUToF    // unsigned bv -> fp (RNE)
	OSToF    // signed bv -> fp
	OFToU    // fp -> ubv w (RTZ)
	OFToS    // fp -> sbv w (RTZ)
	OFIsNaN  // bool
	OFIsInf  // bool
	OFFromBV // reinterpret bits
)

var opNames = map[Op]string{
	OAdd: "bvadd", OSub: "bvsub", OMul: "bvmul", OUDiv: "bvudiv", OURem: "bvurem", OSDiv: "bvsdiv", OSRem: "bvsrem",
	OAnd: "bvand", OOr: "bvor", OXor: "bvxor", ONot: "bvnot", ONeg: "bvneg", OShl: "bvshl", OLshr: "bvlshr", OAshr: "bvashr",
	OConcat: "concat", OIte: "ite", OEq: "=", OUlt: "bvult", OUle: "bvule", OSlt: "bvslt", OSle: "bvsle",
	OBAnd: "and", OBOr: "or", OBNot: "not",
	OFDiv: "fp.div RNE", OFMul: "fp.mul RNE", OFAdd: "fp.add RNE", OFSub: "fp.sub RNE", OFNeg: "fp.neg",
	OFLt: "fp.lt", OFLe: "fp.leq", OFEq: "fp.eq", OFFloor: "fp.roundToIntegral RTN", OFTrunc: "fp.roundToIntegral RTZ",
	OFIsNaN: "fp.isNaN", OFIsInf: "fp.isInfinite",
}

type Term struct {
	op   Op
	kind Kind
	w    int // bit width for KBV
	args []*Term
	val  uint64 // const value (bool: 0/1; fp: bits)
	p1   int
	p2   int
	name string
	id   int
}

// TermTable interns terms for one path execution.
type TermTable struct {
	tab   map[string]*Term
	terms []*Term
	True  *Term
	False *Term
}

func NewTermTable() *TermTable {
	tt := &TermTable{tab: map[string]*Term{}}
	tt.True = tt.intern(&Term{op: OConst, kind: KBool, val: 1})
	tt.False = tt.intern(&Term{op: OConst, kind: KBool, val: 0})
	return tt
}

func (tt *TermTable) intern(t *Term) *Term {
	var sb strings.Builder
	sb.WriteByte(byte(t.op))
	sb.WriteByte(byte(t.kind))
	sb.WriteString(strconv.Itoa(t.w))
	sb.WriteByte('|')
	for _, a := range t.args {
		sb.WriteString(strconv.Itoa(a.id))
		sb.WriteByte(',')
	}
	sb.WriteByte('|')
	sb.WriteString(strconv.FormatUint(t.val, 16))
	sb.WriteByte('|')
	sb.WriteString(strconv.Itoa(t.p1))
	sb.WriteByte('|')
	sb.WriteString(strconv.Itoa(t.p2))
	sb.WriteByte('|')
	sb.WriteString(t.name)
	k := sb.String()
	if e, ok := tt.tab[k]; ok {
		return e
	}
	t.id = len(tt.terms)
	tt.terms = append(tt.terms, t)
	tt.tab[k] = t
	return t
}

func mask(w int) uint64 {
	if w >= 64 {
		return ^uint64(0)
	}
	return (uint64(1) << uint(w)) - 1
}

func (t *Term) IsConst() bool { return t.op == OConst }
func (t *Term) IsTrue() bool  { return t.op == OConst && t.kind == KBool && t.val == 1 }
func (t *Term) IsFalse() bool { return t.op == OConst && t.kind == KBool && t.val == 0 }

// signed value of a constant
func (t *Term) sval() int64 {
	if t.w >= 64 {
		return int64(t.val)
	}
	if t.val&(1<<uint(t.w-1)) != 0 {
		return int64(t.val | ^mask(t.w))
	}
	return int64(t.val)
}

func (tt *TermTable) BV(w int, v uint64) *Term {
	if w > 64 {
		panic("BV const wider than 64")
	}
	return tt.intern(&Term{op: OConst, kind: KBV, w: w, val: v & mask(w)})
}

func (tt *TermTable) Bool(b bool) *Term {
	if b {
		return tt.True
	}
	return tt.False
}

func (tt *TermTable) FP(f float64) *Term {
	return tt.intern(&Term{op: OConst, kind: KFP, val: math.Float64bits(f)})
}

func (tt *TermTable) Var(name string, kind Kind, w int) *Term {
	return tt.intern(&Term{op: OVar, kind: kind, w: w, name: name})
}

func (tt *TermTable) mk(op Op, kind Kind, w int, args ...*Term) *Term {
	return tt.intern(&Term{op: op, kind: kind, w: w, args: args})
}

// ---------- bit-vector ops ----------

func (tt *TermTable) BinBV(op Op, a, b *Term) *Term {
	if a.kind != KBV || b.kind != KBV || a.w != b.w {
		panic(fmt.Sprintf("BinBV sort mismatch op=%d %v/%d %v/%d", op, a.kind, a.w, b.kind, b.w))
	}
	w := a.w
	if a.IsConst() && b.IsConst() && w <= 64 {
		x, y := a.val, b.val
		switch op {
		case OAdd:
			return tt.BV(w, x+y)
		case OSub:
			return tt.BV(w, x-y)
		case OMul:
			return tt.BV(w, x*y)
		case OUDiv:
			if y != 0 {
				return tt.BV(w, x/y)
			}
		case OURem:
			if y != 0 {
				return tt.BV(w, x%y)
			}
		case OSDiv:
			if y != 0 {
				sx, sy := a.sval(), b.sval()
				if sy == -1 {
					return tt.BV(w, uint64(-sx))
				}
				return tt.BV(w, uint64(sx/sy))
			}
		case OSRem:
			if y != 0 {
				sx, sy := a.sval(), b.sval()
				if sy == -1 {
					return tt.BV(w, 0)
				}
				return tt.BV(w, uint64(sx%sy))
			}
		case OAnd:
			return tt.BV(w, x&y)
		case OOr:
			return tt.BV(w, x|y)
		case OXor:
			return tt.BV(w, x^y)
		case OShl:
			if y >= uint64(w) {
				return tt.BV(w, 0)
			}
			return tt.BV(w, x<<y)
		case OLshr:
			if y >= uint64(w) {
				return tt.BV(w, 0)
			}
			return tt.BV(w, x>>y)
		case OAshr:
			sx := a.sval()
			if y >= uint64(w) {
				y = uint64(w - 1)
			}
			return tt.BV(w, uint64(sx>>y))
		}
	}
	// identities
	switch op {
	case OAdd:
		if a.IsConst() && a.val == 0 {
			return b
		}
		if b.IsConst() && b.val == 0 {
			return a
		}
		if a.IsConst() { // canonical: const on the right
			a, b = b, a
		}
	case OSub:
		if b.IsConst() && b.val == 0 {
			return a
		}
		if a == b {
			return tt.BV(w, 0)
		}
	case OMul:
		if a.IsConst() {
			a, b = b, a
		}
		if b.IsConst() {
			if b.val == 0 {
				return b
			}
			if b.val == 1 {
				return a
			}
		}
	case OAnd:
		if a.IsConst() {
			a, b = b, a
		}
		if b.IsConst() {
			if b.val == 0 {
				return b
			}
			if b.val == mask(w) {
				return a
			}
		}
		if a == b {
			return a
		}
	case OOr:
		if a.IsConst() {
			a, b = b, a
		}
		if b.IsConst() {
			if b.val == 0 {
				return a
			}
			if b.val == mask(w) {
				return b
			}
		}
		if a == b {
			return a
		}
		// or of disjoint zero-extended / shifted pieces == concat (little-endian recomposition)
		if r := tt.orAsConcat(a, b); r != nil {
			return r
		}
	case OXor:
		if a == b {
			return tt.BV(w, 0)
		}
		if b.IsConst() && b.val == 0 {
			return a
		}
		if a.IsConst() && a.val == 0 {
			return b
		}
	case OShl:
		if b.IsConst() {
			if b.val == 0 {
				return a
			}
			if b.val >= uint64(w) {
				return tt.BV(w, 0)
			}
			// shl(x, k) = concat(extract(w-1-k,0,x), 0_k)
			k := int(b.val)
			return tt.Concat(tt.Extract(a, w-1-k, 0), tt.BV(k, 0))
		}
	case OLshr:
		if b.IsConst() {
			if b.val == 0 {
				return a
			}
			if b.val >= uint64(w) {
				return tt.BV(w, 0)
			}
			k := int(b.val)
			return tt.Zext(tt.Extract(a, w-1, k), w)
		}
	case OAshr:
		if b.IsConst() {
			if b.val == 0 {
				return a
			}
			k := int(b.val)
			if k >= w {
				k = w - 1
			}
			return tt.Sext(tt.Extract(a, w-1, k), w)
		}
	case OUDiv:
		if b.IsConst() && b.val == 1 {
			return a
		}
		if b.IsConst() && b.val != 0 && bits.OnesCount64(b.val) == 1 {
			k := bits.TrailingZeros64(b.val)
			return tt.Zext(tt.Extract(a, w-1, k), w)
		}
	case OURem:
		if b.IsConst() && b.val == 1 {
			return tt.BV(w, 0)
		}
		if b.IsConst() && b.val != 0 && bits.OnesCount64(b.val) == 1 {
			k := bits.TrailingZeros64(b.val)
			return tt.Zext(tt.Extract(a, k-1, 0), w)
		}
	}
	return tt.mk(op, KBV, w, a, b)
}

// pieces of a term seen as a concat of (lo-aligned) segments; returns nil if not decomposable
type seg struct {
	t  *Term // nil means zero bits
	w  int
}

// decompose t (width W) into segments from high to low when it is built from
// zext / concat / const-zero pieces.
func (tt *TermTable) segments(t *Term) []seg {
	switch {
	case t.op == OConst:
		if t.val == 0 {
			return []seg{{nil, t.w}}
		}
		return []seg{{t, t.w}}
	case t.op == OZext:
		inner := tt.segments(t.args[0])
		return append([]seg{{nil, t.w - t.args[0].w}}, inner...)
	case t.op == OConcat:
		var out []seg
		for _, a := range t.args {
			out = append(out, tt.segments(a)...)
		}
		return out
	}
	return []seg{{t, t.w}}
}

func (tt *TermTable) orAsConcat(a, b *Term) *Term {
	sa, sb := tt.segments(a), tt.segments(b)
	if len(sa) == 1 && sa[0].t != nil && len(sb) == 1 && sb[0].t != nil {
		return nil
	}
	// walk both segment lists from the top, splitting where needed; fail if both non-zero overlap
	var out []*Term
	i, j := 0, 0
	var ra, rb seg
	if len(sa) > 0 {
		ra = sa[0]
	}
	if len(sb) > 0 {
		rb = sb[0]
	}
	for i < len(sa) && j < len(sb) {
		n := ra.w
		if rb.w < n {
			n = rb.w
		}
		var pa, pb *Term
		if ra.t != nil {
			pa = tt.Extract(ra.t, ra.w-1, ra.w-n)
		}
		if rb.t != nil {
			pb = tt.Extract(rb.t, rb.w-1, rb.w-n)
		}
		switch {
		case pa != nil && pb != nil:
			return nil
		case pa != nil:
			out = append(out, pa)
		case pb != nil:
			out = append(out, pb)
		default:
			out = append(out, tt.BV(n, 0))
		}
		// advance
		if ra.w == n {
			i++
			if i < len(sa) {
				ra = sa[i]
			}
		} else {
			if ra.t != nil {
				ra = seg{tt.Extract(ra.t, ra.w-n-1, 0), ra.w - n}
			} else {
				ra = seg{nil, ra.w - n}
			}
		}
		if rb.w == n {
			j++
			if j < len(sb) {
				rb = sb[j]
			}
		} else {
			if rb.t != nil {
				rb = seg{tt.Extract(rb.t, rb.w-n-1, 0), rb.w - n}
			} else {
				rb = seg{nil, rb.w - n}
			}
		}
	}
	return tt.Concat(out...)
}

func (tt *TermTable) Not(a *Term) *Term {
	if a.IsConst() {
		return tt.BV(a.w, ^a.val)
	}
	if a.op == ONot {
		return a.args[0]
	}
	return tt.mk(ONot, KBV, a.w, a)
}

func (tt *TermTable) Neg(a *Term) *Term {
	if a.IsConst() {
		return tt.BV(a.w, -a.val)
	}
	return tt.mk(ONeg, KBV, a.w, a)
}

func (tt *TermTable) Extract(a *Term, hi, lo int) *Term {
	if a.kind != KBV || hi >= a.w || lo < 0 || hi < lo {
		panic(fmt.Sprintf("bad extract [%d:%d] of width %d", hi, lo, a.w))
	}
	if lo == 0 && hi == a.w-1 {
		return a
	}
	w := hi - lo + 1
	switch a.op {
	case OConst:
		return tt.BV(w, a.val>>uint(lo))
	case OExtract:
		return tt.Extract(a.args[0], a.p2+hi, a.p2+lo)
	case OZext:
		iw := a.args[0].w
		if hi < iw {
			return tt.Extract(a.args[0], hi, lo)
		}
		if lo >= iw {
			return tt.BV(w, 0)
		}
		return tt.Zext(tt.Extract(a.args[0], iw-1, lo), w)
	case OSext:
		iw := a.args[0].w
		if hi < iw {
			return tt.Extract(a.args[0], hi, lo)
		}
	case OConcat:
		// find covering parts
		pos := a.w
		var parts []*Term
		for _, p := range a.args {
			phi := pos - 1
			plo := pos - p.w
			pos = plo
			if plo > hi || phi < lo {
				continue
			}
			h := hi
			if phi < h {
				h = phi
			}
			l := lo
			if plo > l {
				l = plo
			}
			parts = append(parts, tt.Extract(p, h-plo, l-plo))
		}
		return tt.Concat(parts...)
	case OIte:
		if a.args[1].IsConst() && a.args[2].IsConst() {
			return tt.Ite(a.args[0], tt.Extract(a.args[1], hi, lo), tt.Extract(a.args[2], hi, lo))
		}
	case OAnd, OOr, OXor:
		if a.args[0].IsConst() || a.args[1].IsConst() {
			return tt.BinBV(a.op, tt.Extract(a.args[0], hi, lo), tt.Extract(a.args[1], hi, lo))
		}
	}
	t := &Term{op: OExtract, kind: KBV, w: w, args: []*Term{a}, p1: hi, p2: lo}
	return tt.intern(t)
}

func (tt *TermTable) Concat(parts ...*Term) *Term {
	// flatten, fuse
	var flat []*Term
	for _, p := range parts {
		if p.op == OConcat {
			flat = append(flat, p.args...)
		} else {
			flat = append(flat, p)
		}
	}
	var out []*Term
	for _, p := range flat {
		if len(out) > 0 {
			last := out[len(out)-1]
			if last.IsConst() && p.IsConst() && last.w+p.w <= 64 {
				out[len(out)-1] = tt.BV(last.w+p.w, last.val<<uint(p.w)|p.val)
				continue
			}
			if last.op == OExtract && p.op == OExtract && last.args[0] == p.args[0] && last.p2 == p.p1+1 {
				out[len(out)-1] = tt.Extract(p.args[0], last.p1, p.p2)
				continue
			}
			// whole-term followed by nothing special
		}
		out = append(out, p)
	}
	if len(out) == 1 {
		return out[0]
	}
	w := 0
	for _, p := range out {
		w += p.w
	}
	// leading zero const => zext
	if out[0].IsConst() && out[0].val == 0 && w <= 64 {
		rest := tt.Concat(out[1:]...)
		return tt.Zext(rest, w)
	}
	return tt.intern(&Term{op: OConcat, kind: KBV, w: w, args: out})
}

func (tt *TermTable) Zext(a *Term, w int) *Term {
	if w == a.w {
		return a
	}
	if w < a.w {
		return tt.Extract(a, w-1, 0)
	}
	if a.IsConst() {
		return tt.BV(w, a.val)
	}
	if a.op == OZext {
		return tt.Zext(a.args[0], w)
	}
	return tt.intern(&Term{op: OZext, kind: KBV, w: w, args: []*Term{a}})
}

func (tt *TermTable) Sext(a *Term, w int) *Term {
	if w == a.w {
		return a
	}
	if w < a.w {
		return tt.Extract(a, w-1, 0)
	}
	if a.IsConst() {
		return tt.BV(w, uint64(a.sval()))
	}
	return tt.intern(&Term{op: OSext, kind: KBV, w: w, args: []*Term{a}})
}

func (tt *TermTable) Ite(c, a, b *Term) *Term {
	if c.IsTrue() {
		return a
	}
	if c.IsFalse() {
		return b
	}
	if a == b {
		return a
	}
	if a.kind == KBool {
		if a.IsTrue() && b.IsFalse() {
			return c
		}
		if a.IsFalse() && b.IsTrue() {
			return tt.BNot(c)
		}
		if a.IsTrue() {
			return tt.BOr(c, b)
		}
		if a.IsFalse() {
			return tt.BAnd(tt.BNot(c), b)
		}
		if b.IsTrue() {
			return tt.BOr(tt.BNot(c), a)
		}
		if b.IsFalse() {
			return tt.BAnd(c, a)
		}
	}
	return tt.intern(&Term{op: OIte, kind: a.kind, w: a.w, args: []*Term{c, a, b}})
}

// ---------- comparisons ----------

func (tt *TermTable) Eq(a, b *Term) *Term {
	if a.kind != b.kind || (a.kind == KBV && a.w != b.w) {
		panic(fmt.Sprintf("Eq sort mismatch %v/%d vs %v/%d", a.kind, a.w, b.kind, b.w))
	}
	if a == b && a.kind != KFP {
		return tt.True
	}
	if a.kind == KFP {
		return tt.mk(OFEq, KBool, 0, a, b)
	}
	if a.IsConst() && b.IsConst() {
		return tt.Bool(a.val == b.val)
	}
	if a.kind == KBool {
		if a.IsConst() {
			a, b = b, a
		}
		if b.IsTrue() {
			return a
		}
		if b.IsFalse() {
			return tt.BNot(a)
		}
	}
	if a.kind == KBV {
		if a.IsConst() {
			a, b = b, a
		}
		// eq(ite(c, k1, k2), k) with constants
		if b.IsConst() && a.op == OIte && a.args[1].IsConst() && a.args[2].IsConst() {
			return tt.Ite(a.args[0], tt.Eq(a.args[1], b), tt.Eq(a.args[2], b))
		}
		// eq(zext(x), const)
		if b.IsConst() && a.op == OZext {
			iw := a.args[0].w
			if b.val>>uint(iw) != 0 {
				return tt.False
			}
			return tt.Eq(a.args[0], tt.BV(iw, b.val))
		}
		// eq(concat(parts), const) -> and of part eqs
		if b.IsConst() && a.op == OConcat {
			res := tt.True
			pos := a.w
			for _, p := range a.args {
				pos -= p.w
				res = tt.BAnd(res, tt.Eq(p, tt.Extract(b, pos+p.w-1, pos)))
			}
			return res
		}
		if a.id > b.id && !b.IsConst() {
			a, b = b, a
		}
	}
	return tt.mk(OEq, KBool, 0, a, b)
}

func (tt *TermTable) Cmp(op Op, a, b *Term) *Term {
	if a.kind != KBV || b.kind != KBV || a.w != b.w {
		panic("Cmp sort mismatch")
	}
	if a.IsConst() && b.IsConst() {
		switch op {
		case OUlt:
			return tt.Bool(a.val < b.val)
		case OUle:
			return tt.Bool(a.val <= b.val)
		case OSlt:
			return tt.Bool(a.sval() < b.sval())
		case OSle:
			return tt.Bool(a.sval() <= b.sval())
		}
	}
	if a == b {
		return tt.Bool(op == OUle || op == OSle)
	}
	switch op {
	case OUlt:
		if b.IsConst() && b.val == 0 {
			return tt.False
		}
		if a.IsConst() && a.val == mask(a.w) {
			return tt.False
		}
	case OUle:
		if a.IsConst() && a.val == 0 {
			return tt.True
		}
		if b.IsConst() && b.val == mask(a.w) {
			return tt.True
		}
	}
	// unsigned compare of zero-extended operand with a constant
	if (op == OUlt || op == OUle) && a.op == OZext && b.IsConst() {
		iw := a.args[0].w
		if b.val>>uint(iw) != 0 {
			return tt.True
		}
		return tt.Cmp(op, a.args[0], tt.BV(iw, b.val))
	}
	return tt.mk(op, KBool, 0, a, b)
}

// ---------- bool ----------

func (tt *TermTable) BNot(a *Term) *Term {
	if a.IsConst() {
		return tt.Bool(a.val == 0)
	}
	if a.op == OBNot {
		return a.args[0]
	}
	return tt.mk(OBNot, KBool, 0, a)
}

func (tt *TermTable) BAnd(a, b *Term) *Term {
	if a.IsFalse() || b.IsFalse() {
		return tt.False
	}
	if a.IsTrue() {
		return b
	}
	if b.IsTrue() {
		return a
	}
	if a == b {
		return a
	}
	if (a.op == OBNot && a.args[0] == b) || (b.op == OBNot && b.args[0] == a) {
		return tt.False
	}
	return tt.mk(OBAnd, KBool, 0, a, b)
}

func (tt *TermTable) BOr(a, b *Term) *Term {
	if a.IsTrue() || b.IsTrue() {
		return tt.True
	}
	if a.IsFalse() {
		return b
	}
	if b.IsFalse() {
		return a
	}
	if a == b {
		return a
	}
	if (a.op == OBNot && a.args[0] == b) || (b.op == OBNot && b.args[0] == a) {
		return tt.True
	}
	return tt.mk(OBOr, KBool, 0, a, b)
}

// ---------- floating point (float64 only) ----------

func (tt *TermTable) FBin(op Op, a, b *Term) *Term {
	if a.IsConst() && b.IsConst() {
		x, y := math.Float64frombits(a.val), math.Float64frombits(b.val)
		switch op {
		case OFDiv:
			return tt.FP(x / y)
		case OFMul:
			return tt.FP(x * y)
		case OFAdd:
			return tt.FP(x + y)
		case OFSub:
			return tt.FP(x - y)
		}
	}
	return tt.mk(op, KFP, 0, a, b)
}

func (tt *TermTable) FCmp(op Op, a, b *Term) *Term {
	if a.IsConst() && b.IsConst() {
		x, y := math.Float64frombits(a.val), math.Float64frombits(b.val)
		switch op {
		case OFLt:
			return tt.Bool(x < y)
		case OFLe:
			return tt.Bool(x <= y)
		case OFEq:
			return tt.Bool(x == y)
		}
	}
	return tt.mk(op, KBool, 0, a, b)
}

func (tt *TermTable) FUn(op Op, a *Term) *Term {
	if a.IsConst() {
		x := math.Float64frombits(a.val)
		switch op {
		case OFFloor:
			return tt.FP(math.Floor(x))
		case OFTrunc:
			return tt.FP(math.Trunc(x))
		case OFNeg:
			return tt.FP(-x)
		case OFIsNaN:
			return tt.Bool(math.IsNaN(x))
		case OFIsInf:
			return tt.Bool(math.IsInf(x, 0))
		}
	}
	k := KFP
	if op == OFIsNaN || op == OFIsInf {
		k = KBool
	}
	return tt.mk(op, k, 0, a)
}

func (tt *TermTable) UToF(a *Term) *Term {
	if a.IsConst() {
		return tt.FP(float64(a.val))
	}
	return tt.mk(OUToF, KFP, 0, a)
}

func (tt *TermTable) SToF(a *Term) *Term {
	if a.IsConst() {
		return tt.FP(float64(a.sval()))
	}
	return tt.mk(OSToF, KFP, 0, a)
}

// raw fp->bv conversions (caller handles out-of-range semantics)
func (tt *TermTable) FToBV(op Op, a *Term, w int) *Term {
	return tt.intern(&Term{op: op, kind: KBV, w: w, args: []*Term{a}})
}

// ---------- printing ----------

func sortStr(t *Term) string {
	switch t.kind {
	case KBool:
		return "Bool"
	case KFP:
		return "(_ FloatingPoint 11 53)"
	}
	return fmt.Sprintf("(_ BitVec %d)", t.w)
}

func bvLit(w int, v uint64) string {
	if w%4 == 0 {
		return fmt.Sprintf("#x%0*x", w/4, v)
	}
	return fmt.Sprintf("#b%0*b", w, v)
}

func (t *Term) ref() string {
	switch t.op {
	case OConst:
		switch t.kind {
		case KBool:
			if t.val == 1 {
				return "true"
			}
			return "false"
		case KBV:
			return bvLit(t.w, t.val)
		case KFP:
			return fmt.Sprintf("((_ to_fp 11 53) %s)", bvLit(64, t.val))
		}
	case OVar:
		return "v_" + strings.ReplaceAll(t.name, "#", "@")
	}
	return "t" + strconv.Itoa(t.id)
}

// body returns the SMT-LIB expression defining t in terms of refs of its args.
func (t *Term) body() string {
	a := func(i int) string { return t.args[i].ref() }
	switch t.op {
	case OExtract:
		return fmt.Sprintf("((_ extract %d %d) %s)", t.p1, t.p2, a(0))
	case OZext:
		return fmt.Sprintf("((_ zero_extend %d) %s)", t.w-t.args[0].w, a(0))
	case OSext:
		return fmt.Sprintf("((_ sign_extend %d) %s)", t.w-t.args[0].w, a(0))
	case OUToF:
		return fmt.Sprintf("((_ to_fp_unsigned 11 53) RNE %s)", a(0))
	case OSToF:
		return fmt.Sprintf("((_ to_fp 11 53) RNE %s)", a(0))
	case OFToU:
		return fmt.Sprintf("((_ fp.to_ubv %d) RTZ %s)", t.w, a(0))
	case OFToS:
		return fmt.Sprintf("((_ fp.to_sbv %d) RTZ %s)", t.w, a(0))
	case OFFromBV:
		return fmt.Sprintf("((_ to_fp 11 53) %s)", a(0))
	case OConcat:
		// nested binary concat
		s := a(0)
		for i := 1; i < len(t.args); i++ {
			s = fmt.Sprintf("(concat %s %s)", s, a(i))
		}
		return s
	}
	name, ok := opNames[t.op]
	if !ok {
		panic(fmt.Sprintf("no smt name for op %d", t.op))
	}
	var sb strings.Builder
	sb.WriteByte('(')
	sb.WriteString(name)
	for i := range t.args {
		sb.WriteByte(' ')
		sb.WriteString(a(i))
	}
	sb.WriteByte(')')
	return sb.String()
}
