package main

// Symbolic values. Layout follows x/tools/go/ssa/interp: every addressable
// location is a *Value cell; aggregates are slices of cells so that
// FieldAddr / IndexAddr are plain Go pointers into them.

import (
	"fmt"
	"go/types"

	"golang.org/x/tools/go/ssa"
)

type Value interface{}

type StructV []Value
type ArrayV []Value
type SliceV struct {
	data []Value // shares backing store; len/cap are those of data
	nil_ bool
}
type TupleV []Value

// StrV: concrete length; bytes may be symbolic.
type StrV struct {
	s   string  // used when sym == nil
	sym []*Term // 8-bit terms
}

type IfaceV struct {
	t types.Type // dynamic type; nil for nil interface
	v Value
}

type ClosureV struct {
	fn  *ssa.Function
	env []Value
}

type mapEntry struct {
	key     Value
	val     Value
	present *Term // Bool: entry is live (constant in fork mode)
}

type MapV struct {
	entries []*mapEntry
	keyT    types.Type
	elemT   types.Type
}

type ChanV struct {
	buf     []Value
	cap     int
	closed  bool
	offers  []Value // values external senders are ready to send (harness-provided)
	offerAfter []*ChanV // per offer: the sender only becomes ready once that channel's offers have been taken
	takers  int     // number of external receivers ready to receive
	takerFns []Value // callbacks of external receivers (called with the received value at hand-off time)
	taken   []Value // values received by external receivers
	elemT   types.Type
	idleCtx bool // Done channel of a context cancelled "when idle"
	ctx     *CtxV
}

// CtxV models context.Context.
type CtxV struct {
	parent    *CtxV
	cancelled bool
	whenIdle  bool // becomes cancelled when a select has nothing else ready
	timeout   bool // WithTimeout: receiving from Done lets the time pass
	done      *ChanV
}

// OpaqueV: an uninterpreted non-nil value (errors from fmt/errors, log fields).
type OpaqueV struct {
	tag string
}

// PtrV is *Value.
type PtrV = *Value

// UnsafeBytesPtr: result of unsafe cast of &buf[i]; only used by intercepted code.

func (s StrV) Len() int {
	if s.sym != nil {
		return len(s.sym)
	}
	return len(s.s)
}

func (s StrV) IsConcrete() bool {
	if s.sym == nil {
		return true
	}
	for _, b := range s.sym {
		if !b.IsConst() {
			return false
		}
	}
	return true
}

func (s StrV) Concrete() string {
	if s.sym == nil {
		return s.s
	}
	b := make([]byte, len(s.sym))
	for i, t := range s.sym {
		b[i] = byte(t.val)
	}
	return string(b)
}

func (s StrV) Bytes(tt *TermTable) []*Term {
	if s.sym != nil {
		return s.sym
	}
	out := make([]*Term, len(s.s))
	for i := 0; i < len(s.s); i++ {
		out[i] = tt.BV(8, uint64(s.s[i]))
	}
	return out
}

func mkStr(tt *TermTable, b []*Term) StrV {
	allc := true
	for _, t := range b {
		if !t.IsConst() {
			allc = false
			break
		}
	}
	if allc {
		bs := make([]byte, len(b))
		for i, t := range b {
			bs[i] = byte(t.val)
		}
		return StrV{s: string(bs)}
	}
	cp := make([]*Term, len(b))
	copy(cp, b)
	return StrV{sym: cp}
}

func intWidth(t *types.Basic) (w int, signed bool) {
	switch t.Kind() {
	case types.Int8:
		return 8, true
	case types.Int16:
		return 16, true
	case types.Int32:
		return 32, true
	case types.Int64, types.Int, types.UntypedInt:
		return 64, true
	case types.Uint8:
		return 8, false
	case types.Uint16:
		return 16, false
	case types.Uint32:
		return 32, false
	case types.Uint64, types.Uint, types.Uintptr:
		return 64, false
	case types.UntypedRune:
		return 32, true
	}
	return 0, false
}

// zero returns the zero value of type t.
func (ex *Exec) zero(t types.Type) Value {
	switch t := t.(type) {
	case *types.Basic:
		if t.Kind() == types.UntypedNil {
			panic("untyped nil has no zero value")
		}
		if t.Info()&types.IsBoolean != 0 {
			return ex.tt.False
		}
		if t.Info()&types.IsString != 0 {
			return StrV{}
		}
		if t.Info()&types.IsFloat != 0 {
			return ex.tt.FP(0)
		}
		if t.Kind() == types.UnsafePointer {
			return PtrV(nil)
		}
		if w, _ := intWidth(t); w > 0 {
			return ex.tt.BV(w, 0)
		}
		panic(fmt.Sprintf("zero: unsupported basic type %s", t))
	case *types.Pointer:
		return PtrV(nil)
	case *types.Array:
		a := make(ArrayV, t.Len())
		for i := range a {
			a[i] = ex.zero(t.Elem())
		}
		return a
	case *types.Named:
		return ex.zero(t.Underlying())
	case *types.Alias:
		return ex.zero(types.Unalias(t))
	case *types.Interface:
		return IfaceV{}
	case *types.Slice:
		return SliceV{nil_: true}
	case *types.Struct:
		s := make(StructV, t.NumFields())
		for i := range s {
			s[i] = ex.zero(t.Field(i).Type())
		}
		return s
	case *types.Tuple:
		if t.Len() == 1 {
			return ex.zero(t.At(0).Type())
		}
		s := make(TupleV, t.Len())
		for i := range s {
			s[i] = ex.zero(t.At(i).Type())
		}
		return s
	case *types.Chan:
		return (*ChanV)(nil)
	case *types.Map:
		return (*MapV)(nil)
	case *types.Signature:
		return (*ClosureV)(nil)
	}
	panic(fmt.Sprintf("zero: unexpected type %T %s", t, t))
}

// copyVal makes a deep copy of aggregates (value semantics).
func copyVal(v Value) Value {
	switch v := v.(type) {
	case StructV:
		c := make(StructV, len(v))
		for i, f := range v {
			c[i] = copyVal(f)
		}
		return c
	case ArrayV:
		c := make(ArrayV, len(v))
		for i, f := range v {
			c[i] = copyVal(f)
		}
		return c
	}
	return v
}

// store writes v into *addr keeping inner cell identity for aggregates.
func store(addr PtrV, v Value) {
	switch v := v.(type) {
	case StructV:
		if dst, ok := (*addr).(StructV); ok && len(dst) == len(v) {
			for i := range v {
				store(&dst[i], v[i])
			}
			return
		}
		*addr = copyVal(v)
	case ArrayV:
		if dst, ok := (*addr).(ArrayV); ok && len(dst) == len(v) {
			for i := range v {
				store(&dst[i], v[i])
			}
			return
		}
		*addr = copyVal(v)
	default:
		*addr = v
	}
}

func load(addr PtrV) Value {
	return copyVal(*addr)
}

func isNilValue(v Value) bool {
	switch v := v.(type) {
	case PtrV:
		return v == nil
	case SliceV:
		return v.nil_
	case *MapV:
		return v == nil
	case *ChanV:
		return v == nil
	case *ClosureV:
		return v == nil
	case IfaceV:
		return v.t == nil
	case *ssa.Function:
		return v == nil
	case nil:
		return true
	}
	return false
}

// equals builds a Bool term for a == b (Go semantics for comparable values).
func (ex *Exec) equals(a, b Value) *Term {
	tt := ex.tt
	switch a := a.(type) {
	case *Term:
		bt, ok := b.(*Term)
		if !ok {
			panic(fmt.Sprintf("equals: term vs %T", b))
		}
		return tt.Eq(a, bt)
	case StrV:
		bs := b.(StrV)
		if a.Len() != bs.Len() {
			return tt.False
		}
		if a.sym == nil && bs.sym == nil {
			return tt.Bool(a.s == bs.s)
		}
		ab, bb := a.Bytes(tt), bs.Bytes(tt)
		res := tt.True
		for i := range ab {
			res = tt.BAnd(res, tt.Eq(ab[i], bb[i]))
		}
		return res
	case PtrV:
		bp, ok := b.(PtrV)
		if !ok {
			return tt.False
		}
		return tt.Bool(a == bp)
	case StructV:
		bs := b.(StructV)
		res := tt.True
		for i := range a {
			res = tt.BAnd(res, ex.equals(a[i], bs[i]))
		}
		return res
	case ArrayV:
		bs := b.(ArrayV)
		res := tt.True
		for i := range a {
			res = tt.BAnd(res, ex.equals(a[i], bs[i]))
		}
		return res
	case IfaceV:
		bi, ok := b.(IfaceV)
		if !ok {
			panic("equals: iface vs non-iface")
		}
		if a.t == nil || bi.t == nil {
			return tt.Bool(a.t == nil && bi.t == nil)
		}
		if !types.Identical(a.t, bi.t) {
			return tt.False
		}
		return ex.equals(a.v, bi.v)
	case *MapV:
		bm, _ := b.(*MapV)
		return tt.Bool(a == bm)
	case *ChanV:
		bc, _ := b.(*ChanV)
		return tt.Bool(a == bc)
	case *ClosureV:
		bc, _ := b.(*ClosureV)
		return tt.Bool(a == bc)
	case *ssa.Function:
		bf, _ := b.(*ssa.Function)
		return tt.Bool(a == bf)
	case SliceV:
		// only comparison with nil is legal
		bs := b.(SliceV)
		return tt.Bool(a.nil_ && bs.nil_)
	case OpaqueV:
		bo, ok := b.(OpaqueV)
		return tt.Bool(ok && a == bo)
	case *CtxV:
		bc, _ := b.(*CtxV)
		return tt.Bool(a == bc)
	case nil:
		return tt.Bool(b == nil)
	}
	panic(fmt.Sprintf("equals: unsupported %T", a))
}
