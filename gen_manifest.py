#!/usr/bin/env python3
"""Regenerates MANIFEST.json from the table below (kept in one place so the manifest stays valid)."""
import json, subprocess

CLAIMED = {
 "C01": dict(
   text="Bounded adversary synthesis on the real multi-node code: three real correct nodes (filters, terms, storage) and one Byzantine committee member whose messages are entirely symbolic (any kind and fields; genuine signatures only under Byzantine/outsider keys, byte-exact replays allowed). A run is a listed honest prefix with partial delivery (all locked; one node committed) and election timeouts, followed by <=2 (quick) / <=3 (thorough) adversarial multicasts each followed by a FIFO flush of the honest traffic; the assertion is agreement itself (all commit callbacks of correct nodes carry the same block), so a violation is a concrete run replayed natively on the real TermInCommittees. Two deeper prefixes reach later views: (4) a Byzantine first leader shows X to two nodes whose PREPAREs it keeps, an honest view 1 commits Y at one node, five further timeout rounds lead to view 6 (weights 1,2,3,4) where one symbolic proof-carrying vote meets the honest votes in flight; (5) the view-1 re-proposal is adopted but not prepared, a second timeout leads to the Byzantine-led view 2, one symbolic NEW_VIEW, after which the Byzantine member goes along with whatever the correct nodes prepared. The known stand-alone-PREPREPARE attack (S7) is reported as an input class; the general query excludes that class. This is a bounded search, not a proof of agreement.",
   note="Trusted: gosym interpreter; ideal signatures with the unforgeability assumption; stubs; n=4, equal weights or 1,2,3,4, one Byzantine member; only the listed prefixes, kinds and delivery patterns.",
   design="6/C01"),
 "C18": dict(
   text="Bounded symbolic model checking of the real calcLeaderOfViewAndCommittee / isLeaderOfViewForThisCommittee: for each committee size n the 64-bit view is one symbolic variable, so each solver verdict covers all 2^64 views (no panic, result = members[view mod n], determinism, n consecutive views give n distinct leaders). Sizes are concrete per query (quick: 4,5,7,22,64; thorough: every n in 4..64).",
   note="Trusted: the gosym SSA interpreter (validated by native replay of every model), cvc5 1.0 integer blasting / z3; committee ids are the concrete bytes 1..n.",
   design="6/C18"),
 "C06": dict(
   text="Bounded symbolic model checking of the real quorum package (CalcQuorumWeight, CalcByzMaxWeight, IsQuorum, HasHonest, getCommitteeSubsetWeight incl. its map[string]bool and the hex MemberId.String keys): all member weights are symbolic 64-bit values (total < 2^64, totals above 2^53 and near 2^64 included) and the id lists are lists of symbolic bytes, so one solver verdict covers every weight vector, every subset, every duplicate/outsider pattern for the given sizes. Assertions: f and Q exact, reported weight = sum over members occurring in the list, quorum intersection > f, quorum implies has-honest, complement of any <=f subset is a quorum, monotonicity, foreign ids add nothing. A second harness varies the id shapes: member ids of length 1, 3, 20, 21 sharing all but their last byte, list entries one byte shorter / equal / one byte longer with symbolic tail bytes (truncated ids, ids extended by 0x00, ids differing in the last byte only): only a byte-for-byte equal id adds weight.",
   note="Trusted: gosym interpreter and its merged-map / hex-string models (validated by native replay), cvc5 --solve-bv-as-int=sum, z3. Sizes: n=4 with lists of 5 (quick), n=4..7 with lists of n+2 (thorough).",
   design="6/C06"),
 "C19": dict(
   text="Bounded symbolic model checking of the real CalcTimeout: base symbolic in [1ns,2^62ns], views 0..70 as concrete cases and all views >= 71 as one symbolic class; assertions: result > 0, = base*2^view while that fits in int64, = the saturated maximum otherwise, never above the maximum, and CalcTimeout(view-1) <= CalcTimeout(view) for every view >= 1 (monotone by transitivity); plus the sequential arm / re-arm / Stop guards of the real trigger object against ghost timers with symbolic positions: an armed timer delivers exactly one trigger carrying exactly its pair, re-arming the same pair is a no-op while armed and arms again after expiry+Stop, re-arming another pair or Stop means the old pair is never delivered. Timer firings racing Stop, 'not before the timeout' and delivery latency are runtime-scheduler properties and are outside the claim.",
   note="Trusted: gosym interpreter, math.Pow(2,y) summary (native for concrete y; >= 2^64 for symbolic y >= 64), amd64 float->int conversion model, cvc5/z3.",
   design="6/C19"),
 "C02": dict(
   text="Bounded symbolic model checking of the real WorkerLoop.ValidateBlockConsensus (and GetMemberIdsFromBlockProof). (i) Proofs built with the real BlockProofBuilder where every field is symbolic: type tag, instance, height, view, hash, 0..5 signer ids, per-signer signature validity, seed signature, block, previous proof, soft/strict mode, committee weights (64-bit) and membership errors; acceptance must imply each conjunct of the reference predicate (COMMIT type, instance, height, commitment, every signature valid, members, pairwise distinct, weight >= Q resp. > f computed independently, seed signature). Committees of total weight 0 are included (no signer set is a quorum). (ii) Fully symbolic proof byte strings (<=12 quick / <=24 thorough): no panic escapes, acceptance implies the predicate on the parsed view. (iii) A genuine certificate (1 signer quick; 1,3,4 thorough) with one 4-byte window at a symbolic position replaced by a small or near-2^32 value: no panic escapes, including from goroutines the validation might spawn (run to completion at the spawn point, a panic there is a process crash).",
   note="Trusted: gosym interpreter; ideal signature registry and block-commitment stubs; SHA-256 seed derivation computed exactly on the concrete previous seed signature; committee of 4.",
   design="6/C02"),
 "C12": dict(
   text="Bounded symbolic model checking of the real message entry path: fully symbolic content bytes (length <=16 quick / <=24 thorough, with/without block) go through one iteration of the real MainLoop.run in a channel model (the deferred worker.interrupt() is interpreted, so a main-loop panic shows up as the permanent wedge the property names) and then through one iteration of the real WorkerLoop.Run (filters and term handlers). Assertion: no panic escapes either loop. Structured mutation: a genuine message of each kind with one symbolic 4-byte window, at the current height (main loop + worker handler, then an honest round must still commit) and at the NEXT height (cached by the height filter, then the node is synced and the cached message reaches the new term's handlers outside the per-message recovery). A full worker queue must not block the main loop. ValidateBlockConsensus / GetMemberIdsFromBlockProof on arbitrary bytes are decided by the C02 check; its mutated-certificate harness also runs here.",
   note="Trusted: gosym interpreter and its channel/select model (single interpreted thread; harness plays the sender); membuffers unsafe accessors modelled as little-endian reads with over-read detection.",
   design="6/C12"),
 "C20": dict(
   text="Bounded symbolic model checking of the wire round trip: the real MessageFactory builds each of the five message types (VIEW_CHANGE with/without prepared proof of 0..3 PREPAREs, NEW_VIEW re-encoding 0..4 votes through ExtractConfirmationsFromViewChangeMessages) and block proofs from 1..4 commits, with all field contents symbolic; ToConsensusRawMessage -> ToConsensusMessage must give back equal type, instance, height, view, hash, sender, nested proof/vote fields, identical raw bytes, and every signature must still verify over the re-read bytes. Equalities are decided as term identities for all values at once. Parsing depends on the bytes only: an envelope object that was parsed before (same pointer, or a by-value copy) and now carries another message parses as that message.",
   note="Trusted: gosym interpreter (term rewriting of little-endian split/recompose is part of the engine), ideal signature registry. Field lengths limited to {0,1,2,3,4,5,8,32}.",
   design="6/C20"),
 "C08": dict(
   text="Bounded symbolic model checking of message acceptance at one real node (RawMessageFilter -> ConsensusMessagesFilter -> TermInCommittee, real storage): in each of 6 prefix states reached by the real handlers on honest traffic, one PREPREPARE / PREPARE / COMMIT / VIEW_CHANGE whose every field is symbolic (instance, header type tag, 64-bit height and view, hash, sender id incl. outsiders, signature validity, share validity, block, and for votes a prepared proof with all fields and up to 3 PREPARE senders symbolic) is delivered; any influence (Store* call, send, view/height change, commit) must imply the reference predicate of the statement (authentic, member, instance, height, role, non-stale, proof predicate).",
   note="Trusted: gosym interpreter; ideal signature registry, proposal/commitment stubs; committee of 4 equal weights; node index symbolic.",
   design="6/C08"),
 "C07": dict(
   text="Bounded symbolic model checking of NEW_VIEW acceptance at one real node: one NEW_VIEW whose header, embedded proposal and each of 0..4 votes (incl. prepared proofs) are entirely symbolic is delivered to a fresh / timed-out / locked node; adopting the view, storing the proposal or sending PREPARE must imply: signed by leader(v), for this instance/height/view, a set of validly signed votes for (instance,height,v) from distinct members of quorum weight, proposal = block and hash of the highest valid prepared proof among them or else approved by ValidateBlockProposal in this step. A symbolic stand-alone PREPREPARE covers the bare-proposal clause (known finding S7). Further harnesses: a node still holding the unprepared view-0 proposal (the fresh-block clause must not be short-cut by a repeated hash); NEW_VIEWs with three genuine proofs at symbolically chosen views 0..6 in every order (adopted iff the proposal is the block of the highest proof); a genuine NEW_VIEW of a symbolic foreign instance and symbolic future height that waits in the future cache until the node is synced to that height. The leader-side clause is decided by the C09 leader harnesses.",
   note="Trusted: as C08. Known finding: bare PREPREPARE in view>0 (known_findings.json).",
   design="6/C07"),
 "C09": dict(
   text="Bounded symbolic model checking of the lock hand-over on the real code: (vote side) a node that accepted the proposal receives PREPAREs from a symbolic subset, optionally adopts view 1 through an honest locked NEW_VIEW and prepares there, then times out; its VIEW_CHANGE must carry a proof iff it is prepared, for its latest prepared view, with the matching block, accepted by another member's real ValidatePreparedProof and by the reference predicate. (leader side) the leader of view 2 receives votes of 5 shapes from 3 members in 3 orders; the NEW_VIEW it emits must embed exactly the votes counted, propose the block/hash of the highest-view proof among them, and request a fresh block iff none carries a proof; a second leader harness (view 6) lets each of the three voters carry a genuine proof of a symbolically chosen view 0..5 or none, in 3 arrival orders.",
   note="Trusted: as C08; concrete weight vectors [1,1,1,1],[3,1,1,1],[1,2,3,4],[2,2,1,1].",
   design="6/C09"),
 "C10": dict(
   text="Bounded symbolic model checking of the outbox of one real node over sequences of 2 (quick) / up to 3 (thorough) events, each a fully symbolic PREPREPARE / PREPARE / COMMIT / VIEW_CHANGE, an election timeout, a re-delivery, a well-formed NEW_VIEW of the current/next view, a delayed genuine NEW_VIEW of an older view or a late genuine vote, from 6 prefix states (incl. holding two COMMITs, and elected leader that already sent its NEW_VIEW): per (height,view) one proposal hash, one PREPARE hash, one COMMIT hash; PREPARE only for the stored proposal of that view's leader, never as leader, only in the node's current view; COMMIT only with a prepared certificate or commit quorum in the log; VIEW_CHANGE views strictly increase; no PREPREPARE/PREPARE for a view below the current one.",
   note="Trusted: as C08.",
   design="6/C10"),
 "C11": dict(
   text="Bounded symbolic model checking on two real nodes: a producer accepts up to 2 fully symbolic adversarial inputs (PREPAREs before its vote, VIEW_CHANGEs with/without proof before its NEW_VIEW) plus honest traffic; every VIEW_CHANGE, NEW_VIEW, PREPARE and COMMIT it then emits is delivered to a correct peer in a state satisfying the statement's precondition, which must show the effect (vote stored by the addressed leader; view adopted and PREPARE sent; PREPARE/COMMIT stored).",
   note="Trusted: as C08; both nodes share registry and committee.",
   design="6/C11"),
 "C03": dict(
   text="Bounded symbolic model checking: a real node holding the proposal receives genuine COMMITs and up to 3 fully symbolic COMMITs (any header incl. type tag, any sender incl. outsiders with valid keys, signature and share validity symbolic); whenever its commit callback fires, the (block, proof) it hands out must be accepted by the strict ValidateBlockConsensus of a second real node with the same committee and previous proof; at most one commit per term. Also: a symbolic COMMIT cached for the next height (two heights committed), and delayed view-0 COMMITs that arrive after 1..2 timeouts and a fully symbolic PREPREPARE (and PREPARE) of a later view.",
   note="Trusted: as C08.",
   design="6/C03"),
 "C04": dict(
   text="Same runs as C03 with external-validity assertions at the commit callback: block height = term height, block satisfies the certified hash, the stored PREPREPARE of the certified view is validly signed by that view's leader and carries the delivered block, and the block was approved by this node's ValidateBlockProposal (blocks with a symbolic proposal-OK flag) or produced by its own RequestNewBlockProposal. Additional runs: a timed-out node (with or without the unprepared view-0 proposal still stored) receives one entirely symbolic NEW_VIEW followed by genuine PREPAREs/COMMITs for whatever it accepted; a weighted leader re-proposal with a Byzantine vote attaching an arbitrary block; delayed view-0 COMMITs after a symbolic later-view PREPREPARE.",
   note="Trusted: as C08; approval is judged at the committing node itself.",
   design="6/C04"),
 "C17": dict(
   text="Bounded symbolic model checking of the real RawMessageFilter + State: k operations (3,4 quick; up to 5 thorough), each a symbolic choice of receiving a message with symbolic 64-bit height / instance / sender or advancing to a symbolic larger height and draining the cache; assertions at every delivery (own height only, right instance, not own, at most once, arrival order per height, never a past message) and the guaranteed-delivery clause at every advance. Also on the real worker: complete cached traffic of the next height, and the window between a commit whose next round is refused as stale (a sync was accepted meanwhile) and the worker taking that sync: the state height that routes messages equals the running term's height and a message of the next height is not handled by the old term.",
   note="Trusted: gosym interpreter (fork-mode maps with symbolic keys). Reading of the ordering clause as documented in DESIGN.md 6/C17.",
   design="6/C17"),
 "C15": dict(
   text="Bounded symbolic model checking of the real ViewContexts (k operations For/CancelOlderThan/Shutdown with symbolic 64-bit arguments against a reference model: never a context for a superseded position or after shutdown, availability otherwise, idempotence, exactly the older contexts cancelled), of all 6 blocking SPI call sites with stubs that cancel at the blocking point (context handed out is the registry's context of the position worked on; a result produced under a cancelled context leads to no send and no store; committee polling stops), and of MainLoop.run in the channel model (on election trigger / sync everything older is cancelled, and nothing newer, at the moment the event is forwarded to the worker; shutdown cancels everything).",
   note="Trusted: gosym interpreter incl. context and channel models; wall-clock promptness is outside.",
   design="6/C15"),
 "C13": dict(
   text="Bounded symbolic model checking under a statically checked sequential reduction: (i) State mutators with symbolic arguments from a symbolic state keep (height, view) lexicographically non-decreasing with view reset exactly on height increase; (ii) the real WorkerLoop from a symbolic start height over 2 (quick) / 3 (thorough) events out of {honest commit round with symbolic callback failure, sync to a symbolic height, election timeout, re-delivered old traffic}: round-callback heights strictly increase, commit-callback heights strictly increase, one commit per round, a commit for h is only followed by rounds above h. Also: the term that survives its own commit (failing callback) goes through a view change and becomes prepared again with early COMMITs of the later view stored (one commit callback per height); at every observation point the state height equals the height of the last announced round, including the window in which a sync was accepted by the main loop while the worker was inside the commit callback.",
   note="Trusted: gosym interpreter; the reduction's single-writer premise is a static SSA check reported in the evidence, not a solver result; real goroutine interleavings are outside.",
   design="6/C13"),
 "C14": dict(
   text="Bounded symbolic model checking of node sync: the worker's handling of UpdateState for a symbolic block height from a symbolic start height (at/above the current height: the node enters height b+1, the round callback gets canBeFirstLeader=false, no view-0 PREPREPARE above height 1; below: nothing changes), and MainLoop.run in the channel model for 1..3 UpdateState calls with symbolic heights and an empty or pre-filled worker slot (the loop never blocks, every call is received, the single slot ends up holding the newest sync). UpdateState is also taken by the main loop while the worker's 1000-message queue is full.",
   note="Trusted: as C13, plus the statically checked fact that only MainLoop methods send on the worker's channels.",
   design="6/C14"),
}

NOT_APPLICABLE = {
 "C05": "liveness under partial synchrony is an unbounded eventuality over real timers and schedules; bounded symbolic execution of the code cannot express 'eventually' (DESIGN.md section 7)",
 "C16": "goroutine termination, timer stopping and bounded wall-clock shutdown latency are properties of the Go runtime scheduler, not of a function that can be executed symbolically (DESIGN.md section 7)",
}
PENDING = "check not built yet in this session (solver-based harness planned in DESIGN.md section 6)"

props = [json.loads(l)["id"] for l in open("properties.jsonl")]
checks = []
for pid in props:
    if pid in CLAIMED:
        c = CLAIMED[pid]
        checks.append({
            "property_id": pid,
            "quick_cmd": f"./check {pid} --tier quick",
            "thorough_cmd": f"./check {pid} --tier thorough",
            "evidence_file": f"evidence/{pid}.json",
            "replay_cmd_template": f"./check {pid} --replay {{path}}",
            "engine": "gosym",
            "level_claimed": {"category": "model_checking", "text": c["text"], "design_ref": c["design"]},
            "level_note": c["note"],
            "technique": c.get("technique", "symbolic execution of go/ssa into SMT (bit-vectors/FP), verdict by z3/cvc5, counterexamples replayed natively"),
        })
na = []
for pid in props:
    if pid not in CLAIMED:
        na.append({"property_id": pid, "reason": NOT_APPLICABLE.get(pid, PENDING)})
manifest = {
 "version": 1,
 "setup_cmd": "mkdir -p bin && cd engine && GOFLAGS=-mod=mod GOPROXY=off GOSUMDB=off GOTOOLCHAIN=local go build -o ../bin/gosym .",
 "hooks": {
   "guard": "verif",
   "enable": "no source hooks: harnesses are injected with go/packages and `go test -overlay` overlays (files /repo/**/zz_verif_*.go and /repo/zzverifenv exist only virtually)",
   "baseline_off_cmd": "cd /repo && go test -vet=off -count=1 ./...",
   "source_commits": [],
   "add_only": True,
 },
 "engines": [{"name": "gosym", "path": "engine", "serves_properties": sorted(CLAIMED), "kind_free_text": "symbolic executor for go/ssa of the real repository code; SMT-LIB2 queries to z3 4.8.12 (incremental), cvc5 1.0 (--solve-bv-as-int=sum for arithmetic kernels) and z3 5.1; native replay of models via go test -overlay"}],
 "checks": checks,
 "not_applicable": na,
 "notes": "Exit codes: 0 = property held on everything explored; 1 = VIOLATION line(s) with replay file; 2 = inconclusive (solver unknown, unwinding bound hit, unsupported construct, or a model that did not reproduce natively) - never reported as success.",
}
json.dump(manifest, open("MANIFEST.json", "w"), indent=1)
print("claimed:", sorted(CLAIMED), "not_applicable:", len(na))
