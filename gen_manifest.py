#!/usr/bin/env python3
"""Regenerates MANIFEST.json from the table below (kept in one place so the manifest stays valid)."""
import json, subprocess

CLAIMED = {
 "C18": dict(
   text="Bounded symbolic model checking of the real calcLeaderOfViewAndCommittee / isLeaderOfViewForThisCommittee: for each committee size n the 64-bit view is one symbolic variable, so each solver verdict covers all 2^64 views (no panic, result = members[view mod n], determinism, n consecutive views give n distinct leaders). Sizes are concrete per query (quick: 4,5,7,22,64; thorough: every n in 4..64).",
   note="Trusted: the gosym SSA interpreter (validated by native replay of every model), cvc5 1.0 integer blasting / z3; committee ids are the concrete bytes 1..n.",
   design="6/C18"),
 "C06": dict(
   text="Bounded symbolic model checking of the real quorum package (CalcQuorumWeight, CalcByzMaxWeight, IsQuorum, HasHonest, getCommitteeSubsetWeight incl. its map[string]bool and the hex MemberId.String keys): all member weights are symbolic 64-bit values (total < 2^64, totals above 2^53 and near 2^64 included) and the id lists are lists of symbolic bytes, so one solver verdict covers every weight vector, every subset, every duplicate/outsider pattern for the given sizes. Assertions: f and Q exact, reported weight = sum over members occurring in the list, quorum intersection > f, quorum implies has-honest, complement of any <=f subset is a quorum, monotonicity, foreign ids add nothing.",
   note="Trusted: gosym interpreter and its merged-map / hex-string models (validated by native replay), cvc5 --solve-bv-as-int=sum, z3. Sizes: n=4 with lists of 5 (quick), n=4..7 with lists of n+2 (thorough).",
   design="6/C06"),
 "C19": dict(
   text="Bounded symbolic model checking of the real CalcTimeout: base symbolic in [1ns,2^62ns], views 0..70 as concrete cases and all views >= 71 as one symbolic class; assertions: result > 0, = base*2^view while that fits in int64, = the saturated maximum otherwise, never above the maximum, and CalcTimeout(view-1) <= CalcTimeout(view) for every view >= 1 (monotone by transitivity). The timer/Stop race, 'not before the timeout' and eventual delivery clauses are runtime-scheduler properties and are outside the claim.",
   note="Trusted: gosym interpreter, math.Pow(2,y) summary (native for concrete y; >= 2^64 for symbolic y >= 64), amd64 float->int conversion model, cvc5/z3.",
   design="6/C19"),
 "C02": dict(
   text="Bounded symbolic model checking of the real WorkerLoop.ValidateBlockConsensus (and GetMemberIdsFromBlockProof). (i) Proofs built with the real BlockProofBuilder where every field is symbolic: type tag, instance, height, view, hash, 0..5 signer ids, per-signer signature validity, seed signature, block, previous proof, soft/strict mode, committee weights (64-bit) and membership errors; acceptance must imply each conjunct of the reference predicate (COMMIT type, instance, height, commitment, every signature valid, members, pairwise distinct, weight >= Q resp. > f computed independently, seed signature). (ii) Fully symbolic proof byte strings (<=12 quick / <=24 thorough): no panic escapes, acceptance implies the predicate on the parsed view.",
   note="Trusted: gosym interpreter; ideal signature registry and block-commitment stubs; SHA-256 seed derivation computed exactly on the concrete previous seed signature; committee of 4.",
   design="6/C02"),
 "C12": dict(
   text="Bounded symbolic model checking of the real message entry path: fully symbolic content bytes (length <=16 quick / <=24 thorough, with/without block) go through one iteration of the real MainLoop.run in a channel model (the deferred worker.interrupt() is interpreted, so a main-loop panic shows up as the permanent wedge the property names) and then through one iteration of the real WorkerLoop.Run (filters and term handlers). Assertion: no panic escapes either loop. ValidateBlockConsensus / GetMemberIdsFromBlockProof on arbitrary bytes are decided by the C02 check.",
   note="Trusted: gosym interpreter and its channel/select model (single interpreted thread; harness plays the sender); membuffers unsafe accessors modelled as little-endian reads with over-read detection.",
   design="6/C12"),
 "C20": dict(
   text="Bounded symbolic model checking of the wire round trip: the real MessageFactory builds each of the five message types (VIEW_CHANGE with/without prepared proof of 0..3 PREPAREs, NEW_VIEW re-encoding 0..4 votes through ExtractConfirmationsFromViewChangeMessages) and block proofs from 1..4 commits, with all field contents symbolic; ToConsensusRawMessage -> ToConsensusMessage must give back equal type, instance, height, view, hash, sender, nested proof/vote fields, identical raw bytes, and every signature must still verify over the re-read bytes. Equalities are decided as term identities for all values at once.",
   note="Trusted: gosym interpreter (term rewriting of little-endian split/recompose is part of the engine), ideal signature registry. Field lengths limited to {0,1,2,3,4,5,8,32}.",
   design="6/C20"),
}

NOT_APPLICABLE = {
 "C05": "liveness under partial synchrony is an unbounded eventuality over real timers and schedules; bounded symbolic execution of the code cannot express 'eventually' (DESIGN.md section 7)",
 "C16": "goroutine termination, timer stopping and bounded wall-clock shutdown latency are properties of the Go runtime scheduler, not of a function that can be executed symbolically (DESIGN.md section 7)",
}
PENDING = "check not built yet in this session (solver-based harness planned in DESIGN.md section 6)"

props = [json.loads(l)["id"] for l in open("properties.jsonl")]
checks = []
for pid in props:
    if pid in CLAIMED:
        c = CLAIMED[pid]
        checks.append({
            "property_id": pid,
            "quick_cmd": f"./check {pid} --tier quick",
            "thorough_cmd": f"./check {pid} --tier thorough",
            "evidence_file": f"evidence/{pid}.json",
            "replay_cmd_template": f"./check {pid} --replay {{path}}",
            "engine": "gosym",
            "level_claimed": {"category": "model_checking", "text": c["text"], "design_ref": c["design"]},
            "level_note": c["note"],
            "technique": c.get("technique", "symbolic execution of go/ssa into SMT (bit-vectors/FP), verdict by z3/cvc5, counterexamples replayed natively"),
        })
na = []
for pid in props:
    if pid not in CLAIMED:
        na.append({"property_id": pid, "reason": NOT_APPLICABLE.get(pid, PENDING)})
manifest = {
 "version": 1,
 "setup_cmd": "mkdir -p bin && cd engine && GOFLAGS=-mod=mod GOPROXY=off GOSUMDB=off GOTOOLCHAIN=local go build -o ../bin/gosym .",
 "hooks": {
   "guard": "verif",
   "enable": "no source hooks: harnesses are injected with go/packages and `go test -overlay` overlays (files /repo/**/zz_verif_*.go and /repo/zzverifenv exist only virtually)",
   "baseline_off_cmd": "cd /repo && go test -vet=off -count=1 ./...",
   "source_commits": [],
   "add_only": True,
 },
 "engines": [{"name": "gosym", "path": "engine", "serves_properties": sorted(CLAIMED), "kind_free_text": "symbolic executor for go/ssa of the real repository code; SMT-LIB2 queries to z3 4.8.12 (incremental), cvc5 1.0 (--solve-bv-as-int=sum for arithmetic kernels) and z3 5.1; native replay of models via go test -overlay"}],
 "checks": checks,
 "not_applicable": na,
 "notes": "Exit codes: 0 = property held on everything explored; 1 = VIOLATION line(s) with replay file; 2 = inconclusive (solver unknown, unwinding bound hit, unsupported construct, or a model that did not reproduce natively) - never reported as success.",
}
json.dump(manifest, open("MANIFEST.json", "w"), indent=1)
print("claimed:", sorted(CLAIMED), "not_applicable:", len(na))
