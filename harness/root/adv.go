package leanhelix

import (
	"github.com/orbs-network/lean-helix-go/services/interfaces"
	"github.com/orbs-network/lean-helix-go/spec/types/go/primitives"
	"github.com/orbs-network/lean-helix-go/spec/types/go/protocol"
	env "github.com/orbs-network/lean-helix-go/zzverifenv"
	stub "github.com/orbs-network/lean-helix-go/zzverifstub"
)

// ---------------- symbolic (adversarial) messages built with the real builders ----------------

// symSig: an 8-byte signature for (signer, height, content): if the symbolic bit `proper` is set it is a
// genuine signature made with the signer's key over exactly these bytes, otherwise 8 arbitrary bytes
// (which may replay any token already in the registry). No fork.
// advProtected: ids whose keys the adversary does not hold (the correct nodes of a multi-node run).
var advProtected []byte

func symSig(reg *stub.Registry, kind int, signer []byte, height uint64, content []byte, name string) (sig []byte, valid bool) {
	proper := env.NondetBool(name + "_proper")
	for _, id := range advProtected {
		// unforgeability: a genuine signature can only be made under a key the adversary holds
		env.Assume(env.Implies(proper, env.Not(env.And(len(signer) == 1, signer[0] == id))))
	}
	tok := reg.SignIf(proper, kind, signer, height, content)
	arb := env.NondetBytes(name+"_sig", 8)
	sig = make([]byte, 8)
	for x := 0; x < 8; x++ {
		sig[x] = env.IteU8(proper, tok[x], arb[x])
	}
	return sig, reg.Valid(kind, signer, height, content, sig)
}

type symRef struct {
	typ      protocol.MessageType
	instance primitives.InstanceId
	height   primitives.BlockHeight
	view     primitives.View
	hash     byte
	b        *protocol.BlockRefBuilder
	raw      []byte
}

func newSymRef(name string) *symRef {
	r := &symRef{
		typ:      protocol.MessageType(env.NondetU16(name + "_type")),
		instance: primitives.InstanceId(env.NondetU64(name + "_instance")),
		height:   primitives.BlockHeight(env.NondetU64(name + "_height")),
		view:     primitives.View(env.NondetU64(name + "_view")),
		hash:     env.NondetU8(name + "_hash"),
	}
	bh := primitives.BlockHash{r.hash}
	if env.ParamOr("hashlen", 1) == 0 {
		// boundary: every block-ref of this run carries an EMPTY hash (no block satisfies it)
		bh, r.hash = primitives.BlockHash{}, 0
	}
	r.b = &protocol.BlockRefBuilder{MessageType: r.typ, InstanceId: r.instance, BlockHeight: r.height, View: r.view, BlockHash: bh}
	r.raw = r.b.Build().Raw()
	if k := env.ParamOr("trailing", 0); k != 0 {
		// a non-canonical encoding of the same header: |k| arbitrary extra bytes after the last field (the membuffers
		// reader tolerates them). k > 0: whoever signs this header signs exactly these bytes; k < 0: the signature is
		// made over the canonical encoding (which is what a node that verifies canonically accepts)
		n := k
		if n < 0 {
			n = -n
		}
		raw := append(append([]byte{}, r.raw...), env.NondetBytes(name+"_trailing", n)...)
		r.b = protocol.BlockRefBuilderFromRaw(raw)
		if k > 0 {
			r.raw = raw
		}
	}
	return r
}

type symSender struct {
	id      byte
	sig     []byte
	b       *protocol.SenderSignatureBuilder
	reg     *stub.Registry
	height  uint64
	content []byte
}

// isValid: the signature verifies for (id, height, header bytes). Evaluated when asked (not when the
// message part was built): signatures registered later over identical bytes make a replay valid too.
func (s *symSender) isValid() bool {
	return s.reg.Valid(stub.KindConsensus, []byte{s.id}, s.height, s.content, s.sig)
}

func newSymSender(reg *stub.Registry, name string, height uint64, content []byte) *symSender {
	s := &symSender{id: env.NondetU8(name + "_id"), reg: reg, height: height, content: content}
	s.sig, _ = symSig(reg, stub.KindConsensus, []byte{s.id}, height, content, name)
	s.b = &protocol.SenderSignatureBuilder{MemberId: primitives.MemberId{s.id}, Signature: s.sig}
	return s
}

func symBlock(name string) *stub.Block {
	return &stub.Block{H: primitives.BlockHeight(env.NondetU64(name + "_h")), Tag: env.NondetU8(name + "_tag"), ProposalOK: env.NondetBool(name + "_ok")}
}

// symProof: a prepared proof with every field symbolic and k PREPARE senders.
type symProof struct {
	pp, p   *symRef
	ppS     *symSender
	pS      []*symSender
	b       *protocol.PreparedProofBuilder
}

// k >= 0: PREPREPARE sender plus k PREPARE senders; k == -2: both block-refs but no sender part at all
func newSymProof(reg *stub.Registry, name string, k int) *symProof {
	pr := &symProof{pp: newSymRef(name + "_pp"), p: newSymRef(name + "_p")}
	if k == -2 {
		pr.b = &protocol.PreparedProofBuilder{PreprepareBlockRef: pr.pp.b, PrepareBlockRef: pr.p.b}
		return pr
	}
	pr.ppS = newSymSender(reg, name+"_pps", uint64(pr.pp.height), pr.pp.raw)
	var bs []*protocol.SenderSignatureBuilder
	for j := 0; j < k; j++ {
		s := newSymSender(reg, name+"_ps", uint64(pr.p.height), pr.p.raw)
		pr.pS = append(pr.pS, s)
		bs = append(bs, s.b)
	}
	pr.b = &protocol.PreparedProofBuilder{PreprepareBlockRef: pr.pp.b, PreprepareSender: pr.ppS.b, PrepareBlockRef: pr.p.b, PrepareSenders: bs}
	return pr
}

// committee helpers for reference predicates (ids are the bytes 1..n)
type refCommittee struct {
	n     int
	w     []uint64
	total uint64
	ids   []byte
}

func newRefCommittee(w []uint64) *refCommittee {
	c := &refCommittee{n: len(w), w: w, ids: committeeIds(len(w))}
	for _, x := range w {
		c.total += x
	}
	return c
}
func (c *refCommittee) member(id byte) bool { return env.And(id >= 1, id <= byte(c.n)) }
func (c *refCommittee) leader(v primitives.View) byte {
	idx := uint64(v) % uint64(c.n)
	r := c.ids[0]
	for i := 1; i < c.n; i++ {
		r = env.IteU8(idx == uint64(i), c.ids[i], r)
	}
	return r
}
func (c *refCommittee) f() uint64 { return (c.total - 1) / 3 }
func (c *refCommittee) q() uint64 { return c.total - c.f() }

// weight of the set of member ids occurring in ids (each member once)
func (c *refCommittee) weight(ids []byte, use []bool) uint64 {
	sum := uint64(0)
	for i := 0; i < c.n; i++ {
		in := false
		for k, id := range ids {
			in = env.Or(in, env.And(use[k], id == c.ids[i]))
		}
		sum += env.IteU64(in, c.w[i], 0)
	}
	return sum
}

func allTrue(n int) []bool {
	u := make([]bool, n)
	for i := range u {
		u[i] = true
	}
	return u
}

// proofOK: the reference predicate PP(p) of Appendix A for a proof inside a vote of view voteView at height H.
func (c *refCommittee) proofOK(p *symProof, H primitives.BlockHeight, voteView primitives.View) bool {
	if p.ppS == nil {
		return false // no signatures at all: never a valid certificate
	}
	ok := env.And(p.pp.height == H, p.p.height == H)
	ok = env.And(ok, env.And(p.pp.view == p.p.view, p.pp.view < voteView))
	ok = env.And(ok, p.pp.hash == p.p.hash)
	ok = env.And(ok, p.pp.instance == p.p.instance)
	// the certificate is about THIS instance (a quorum of another instance run by the same members and keys prepared
	// a block of another chain) and its two parts are a PREPREPARE and a PREPARE header
	ok = env.And(ok, p.pp.instance == vInstance)
	ok = env.And(ok, env.And(p.pp.typ == protocol.LEAN_HELIX_PREPREPARE, p.p.typ == protocol.LEAN_HELIX_PREPARE))
	ok = env.And(ok, env.And(p.ppS.isValid(), p.ppS.id == c.leader(p.pp.view)))
	ids := []byte{p.ppS.id}
	for j, s := range p.pS {
		ok = env.And(ok, env.And(s.isValid(), env.And(c.member(s.id), s.id != p.ppS.id)))
		for j2 := 0; j2 < j; j2++ {
			ok = env.And(ok, s.id != p.pS[j2].id)
		}
		ids = append(ids, s.id)
	}
	ok = env.And(ok, c.weight(ids, allTrue(len(ids))) >= c.q())
	return ok
}

// ---------------- influence snapshot ----------------

type vSnap struct {
	events, out, commits, regs int
	h                          primitives.BlockHeight
	v                          primitives.View
}

func (n *vNode) snap() vSnap {
	hv := n.m.state.HeightView()
	return vSnap{events: len(n.st.Events), out: len(n.comm.Out), commits: len(n.commits), regs: len(n.el.Regs), h: hv.Height(), v: hv.View()}
}

// influenced: the delivery caused a Store* call, a send, a view/height change or a commit callback.
func (n *vNode) influenced(s vSnap) bool {
	t := n.snap()
	return t.events != s.events || t.out != s.out || t.commits != s.commits || t.h != s.h || t.v != s.v
}

var _ = interfaces.GenesisBlock
