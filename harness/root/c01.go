package leanhelix

import (
	"github.com/orbs-network/lean-helix-go/services/interfaces"
	"github.com/orbs-network/lean-helix-go/services/preparedmessages"
	"github.com/orbs-network/lean-helix-go/spec/types/go/primitives"
	"github.com/orbs-network/lean-helix-go/spec/types/go/protocol"
	env "github.com/orbs-network/lean-helix-go/zzverifenv"
	stub "github.com/orbs-network/lean-helix-go/zzverifstub"
)

func init() {
	env.Register("C01_Run", C01_Run)
}

// vCluster: three real correct nodes and one Byzantine committee member whose messages are symbolic.
type vCluster struct {
	wd    *vWorld // shared registry / net / reference committee (wd.n unused)
	nodes []*vNode
	byz   int
	next  []int // per node: index of the next outbox entry to flush
}

func newCluster(byz int, w []uint64) *vCluster {
	c := &vCluster{byz: byz}
	wd := &vWorld{reg: stub.NewRegistry(), H: 1}
	committee := vCommittee(len(w), w)
	wd.net = newVNet(wd.reg, committee, vInstance, nil)
	wd.ref = newRefCommittee(w)
	c.wd = wd
	advProtected = nil
	for i := 0; i < len(w); i++ {
		if i == byz {
			c.nodes = append(c.nodes, nil)
			c.next = append(c.next, 0)
			continue
		}
		n := newVNode(wd.reg, committee, i, vInstance)
		n.commitErr = true
		c.nodes = append(c.nodes, n)
		c.next = append(c.next, 0)
		advProtected = append(advProtected, byte(i+1))
	}
	for _, n := range c.nodes {
		if n != nil {
			n.start(nil, nil, true)
		}
	}
	return c
}

// flush delivers everything the correct nodes have sent (FIFO per sender, round-robin over senders) to the
// correct recipients, until nothing is pending. allow == nil: deliver everything.
func (c *vCluster) flush(allow func(from, to int, m interfaces.ConsensusMessage) bool) {
	for round := 0; round < 64; round++ {
		progress := false
		for i, n := range c.nodes {
			if n == nil {
				continue
			}
			for c.next[i] < len(n.comm.Out) {
				s := n.comm.Out[c.next[i]]
				c.next[i]++
				progress = true
				for _, to := range s.To {
					if len(to) != 1 {
						continue
					}
					j := int(to[0]) - 1
					if j < 0 || j >= len(c.nodes) || c.nodes[j] == nil {
						continue
					}
					if allow != nil && !allow(i, j, s.Msg) {
						continue
					}
					c.nodes[j].deliver(s.Raw)
				}
			}
		}
		if !progress {
			return
		}
	}
	env.Assert("C01.flush_terminates", false)
}

func (c *vCluster) checkAgreement() {
	var first *vCommit
	for _, n := range c.nodes {
		if n == nil {
			continue
		}
		env.Assert("C01.commit_once", len(n.commits) <= 1)
		for _, cm := range n.commits {
			if first == nil {
				first = cm
				continue
			}
			same := cm.block != nil && first.block != nil && cm.block.Tag == first.block.Tag && cm.block.H == first.block.H
			env.Assert("C01.agreement", same)
		}
	}
}

// byzFollow: listed concrete Byzantine action: it goes along with whatever the correct nodes PREPAREd last (genuine
// PREPARE and COMMIT for that view and hash to every correct node)
func (c *vCluster) byzFollow() {
	cs := c.correct()
	for _, j := range cs {
		var last *interfaces.PrepareMessage
		for _, sm := range c.nodes[j].comm.Out {
			if pm, ok := sm.Msg.(*interfaces.PrepareMessage); ok {
				last = pm
			}
		}
		if last == nil {
			continue
		}
		h := last.Content().SignedHeader().BlockHash()
		for _, k := range cs {
			c.nodes[k].deliver(c.wd.net.pm(c.byz, 1, last.View(), h).ToConsensusRawMessage())
			c.nodes[k].deliver(c.wd.net.cm(c.byz, 1, last.View(), h).ToConsensusRawMessage())
		}
	}
}

// handDeliver: the messages of node `from` that satisfy pick (looked up in its whole outbox) are delivered to node `to`
func (c *vCluster) handDeliver(from, to int, pick func(m interfaces.ConsensusMessage) bool) {
	for _, sm := range c.nodes[from].comm.Out {
		if pick(sm.Msg) {
			c.nodes[to].deliver(sm.Raw)
		}
	}
}

func (c *vCluster) correct() []int {
	var out []int
	for i, n := range c.nodes {
		if n != nil {
			out = append(out, i)
		}
	}
	return out
}

// advMessage builds one adversarial message of the given kind: every field symbolic; genuine signatures
// only under the Byzantine member's or outsiders' keys (advProtected), byte-exact replays allowed.
//   0 PREPREPARE, 1 PREPARE, 2 COMMIT, 3 VIEW_CHANGE without proof, 4 VIEW_CHANGE with proof (2 prepares),
//   5 NEW_VIEW with 3 proof-less votes, 6 NEW_VIEW with 3 votes, the first carrying a proof
func (c *vCluster) advMessage(kind int, name string) (raw *interfaces.ConsensusRawMessage, view primitives.View) {
	wd := c.wd
	switch kind {
	case 0:
		hdr := newSymRef(name)
		snd := newSymSender(wd.reg, name+"_s", uint64(hdr.height), hdr.raw)
		cont := (&protocol.PreprepareContentBuilder{SignedHeader: hdr.b, Sender: snd.b}).Build()
		return interfaces.NewPreprepareMessage(cont, symBlock(name+"_blk")).ToConsensusRawMessage(), hdr.view
	case 1:
		return symPrepareRaw(wd, name), 0
	case 2:
		r, _, _, _ := symCommit(wd, name)
		return r, 0
	case 3:
		return symViewChangeRaw(wd, name, -1), 0
	case 4:
		return symViewChangeRaw(wd, name, 2), 0
	case 5, 6:
		mask := 0
		if kind == 6 {
			mask = 1
		}
		var vbs []*protocol.ViewChangeMessageContentBuilder
		for i := 0; i < 3; i++ {
			v := newSymVote(wd.reg, name+"_v", mask&(1<<uint(i)) != 0, 2)
			vbs = append(vbs, v.b)
		}
		nvHeight := primitives.BlockHeight(env.NondetU64(name + "_nv_height"))
		nvView := primitives.View(env.NondetU64(name + "_nv_view"))
		nh := &protocol.NewViewHeaderBuilder{MessageType: protocol.MessageType(env.NondetU16(name + "_nv_type")), InstanceId: primitives.InstanceId(env.NondetU64(name + "_nv_instance")), BlockHeight: nvHeight, View: nvView, ViewChangeConfirmations: vbs}
		nvSnd := newSymSender(wd.reg, name+"_nv_s", uint64(nvHeight), nh.Build().Raw())
		pp := newSymRef(name + "_pp")
		ppSnd := newSymSender(wd.reg, name+"_pp_s", uint64(pp.height), pp.raw)
		content := (&protocol.NewViewMessageContentBuilder{SignedHeader: nh, Sender: nvSnd.b, Message: &protocol.PreprepareContentBuilder{SignedHeader: pp.b, Sender: ppSnd.b}}).Build()
		return interfaces.NewNewViewMessage(content, symBlock(name+"_blk")).ToConsensusRawMessage(), nvView
	}
	return nil, 0
}

// prefixes (honest executions with partial delivery; the Byzantine member's part, where there is one, is a
// concrete listed action):
//   0: nothing happened
//   1: honest leader 0 proposed A; every correct node prepared (locked on A); no COMMIT delivered yet
//   2: as 1, then one correct node (the highest index) also received the COMMITs of the others plus a
//      genuine COMMIT of the Byzantine member and committed A; the others did not commit
//   3 (Byzantine first leader only): equivocation X / Y in view 0 with the Y side committed (see below)
//   4 (Byzantine first leader only): deep prefix, see below
//   5 (Byzantine member 2): as 2, then a complete view change to view 1 whose proposal is adopted but not
//      prepared, then a second round of timeouts into view 2, which the Byzantine member leads
func (c *vCluster) prefix(p int, timeouts int) {
	thenTimeout := timeouts >= 1
	if c.byz == 0 && p == 3 {
		// listed concrete Byzantine action: the first leader equivocates - proposal X to the first correct node,
		// proposal Y to the others; everything the correct nodes send is delivered; then the Byzantine COMMIT(Y)
		// lets the Y side commit. The X side holds its proposal, its own PREPARE and the others' COMMIT(Y).
		cs := c.correct()
		x := &stub.Block{H: 1, Tag: 0x51, ProposalOK: true}
		y := &stub.Block{H: 1, Tag: 0x53, ProposalOK: true}
		c.nodes[cs[0]].deliver(c.wd.net.ppm(0, 1, 0, x).ToConsensusRawMessage())
		for _, i := range cs[1:] {
			c.nodes[i].deliver(c.wd.net.ppm(0, 1, 0, y).ToConsensusRawMessage())
		}
		c.flush(nil)
		for _, i := range cs[1:] {
			c.nodes[i].deliver(c.wd.net.cm(0, 1, 0, stub.HashOf(y)).ToConsensusRawMessage())
		}
		c.flush(nil)
		return
	}
	if c.byz == 0 && p == 4 {
		// deep prefix (Byzantine first leader, views up to 1+timeouts):
		//  view 0: the Byzantine leader shows X to the two highest correct nodes only; their PREPARE(X, view 0)
		//          reach nobody but the Byzantine member (which keeps the genuine signatures for replay);
		//  view 1: everybody times out, the correct leader of view 1 is elected by proof-less votes, proposes a
		//          fresh Y, all correct nodes prepare Y, the COMMITs reach that leader only: it commits Y, the
		//          other two stay locked on (Y, view 1);
		//  then `timeouts` further rounds of election timeouts at the two locked nodes, all votes lost except
		//  those of the last round, which are still in flight when the adversary moves.
		cs := c.correct()
		x := &stub.Block{H: 1, Tag: 0x51, ProposalOK: true}
		lost := func(from, to int, m interfaces.ConsensusMessage) bool { return false }
		noCommits := func(from, to int, m interfaces.ConsensusMessage) bool {
			_, isC := m.(*interfaces.CommitMessage)
			return !isC
		}
		for _, i := range cs[1:] {
			c.nodes[i].deliver(c.wd.net.ppm(0, 1, 0, x).ToConsensusRawMessage())
		}
		c.flush(lost)
		for _, i := range cs {
			c.nodes[i].timeout()
		}
		c.flush(noCommits)
		l1 := cs[0]
		for _, i := range cs[1:] {
			for _, s := range c.nodes[i].comm.Out {
				if _, ok := s.Msg.(*interfaces.CommitMessage); ok {
					c.nodes[l1].deliver(s.Raw)
				}
			}
		}
		env.Assume(len(c.nodes[l1].commits) == 1 && len(c.nodes[cs[1]].commits) == 0 && len(c.nodes[cs[2]].commits) == 0)
		for t := 0; t < timeouts; t++ {
			c.flush(lost)
			for _, i := range cs[1:] {
				c.nodes[i].timeout()
			}
		}
		return
	}
	if c.byz == 0 {
		// Byzantine first leader: no honest proposal exists
		if thenTimeout {
			for _, i := range c.correct() {
				c.nodes[i].timeout()
			}
		}
		return
	}
	noCommits := func(from, to int, m interfaces.ConsensusMessage) bool {
		_, isC := m.(*interfaces.CommitMessage)
		return !isC
	}
	if p == 6 {
		c.prefixTwoLocks()
		return
	}
	if p == 7 {
		c.prefixByzantineLedView()
		return
	}
	if p == 8 {
		c.prefixEarlyCommit()
		return
	}
	if p == 9 {
		c.prefixSecondProposal()
		return
	}
	if p == 5 {
		env.Assume(c.byz == 2)
	}
	if p >= 1 {
		// the Byzantine member also PREPAREs honestly (it wants the others locked)
		c.flush(noCommits)
		hash := c.nodes[0].bu.Requests[0].Hash
		if c.byz != 0 {
			for _, i := range c.correct() {
				if i != 0 {
					c.nodes[i].deliver(c.wd.net.pm(c.byz, 1, 0, hash).ToConsensusRawMessage())
				}
			}
			c.nodes[0].deliver(c.wd.net.pm(c.byz, 1, 0, hash).ToConsensusRawMessage())
		}
		c.flush(noCommits)
	}
	if p >= 2 {
		cs := c.correct()
		x := cs[len(cs)-1]
		hash := c.nodes[0].bu.Requests[0].Hash
		for _, i := range cs {
			if i != x {
				// the COMMIT of node i reaches x only
				for _, s := range c.nodes[i].comm.Out {
					if cm, ok := s.Msg.(*interfaces.CommitMessage); ok {
						_ = cm
						c.nodes[x].deliver(s.Raw)
					}
				}
			}
		}
		c.nodes[x].deliver(c.wd.net.cm(c.byz, 1, 0, hash).ToConsensusRawMessage())
	}
	if p == 5 {
		// the first view change completes: the uncommitted nodes time out, the Byzantine member adds its genuine
		// proof-less vote, the correct leader of view 1 is elected and re-proposes the locked block in its NEW_VIEW,
		// the other uncommitted node adopts it and PREPAREs; no quorum forms in view 1 (the Byzantine member stays
		// silent), so both time out again, into view 2
		// the node that committed has moved on to the next height: nothing of this height reaches it any more
		lagging := func(from, to int, m interfaces.ConsensusMessage) bool {
			_, isC := m.(*interfaces.CommitMessage)
			return !isC && len(c.nodes[to].commits) == 0
		}
		for _, i := range c.correct() {
			if len(c.nodes[i].commits) == 0 {
				c.nodes[i].timeout()
			}
		}
		c.flush(lagging)
		c.nodes[1].deliver(c.wd.net.vcm(c.byz, 1, 1, nil).ToConsensusRawMessage())
		c.flush(lagging)
		env.Assume(c.nodes[0].m.state.View() == 1 && c.nodes[1].m.state.View() == 1)
		for _, i := range c.correct() {
			if len(c.nodes[i].commits) == 0 {
				c.nodes[i].timeout()
			}
		}
		c.flush(lagging)
		return
	}
	if thenTimeout {
		for _, i := range c.correct() {
			if len(c.nodes[i].commits) == 0 {
				c.nodes[i].timeout()
			}
		}
		if timeouts >= 2 {
			// the votes of this view change are lost; everybody times out once more
			lost := func(from, to int, m interfaces.ConsensusMessage) bool { return false }
			c.flush(lost)
			for _, i := range c.correct() {
				if len(c.nodes[i].commits) == 0 {
					c.nodes[i].timeout()
				}
			}
		}
		c.flush(noCommits)
		if env.Param("byzvote") == 1 {
			// listed concrete Byzantine action: its genuine proof-less vote for the view the others timed out to
			for _, i := range c.correct() {
				if len(c.nodes[i].commits) == 0 {
					v := c.nodes[i].m.state.View()
					l := int(uint64(v) % 4)
					if c.nodes[l] != nil {
						c.nodes[l].deliver(c.wd.net.vcm(c.byz, 1, v, nil).ToConsensusRawMessage())
					}
					break
				}
			}
			c.flush(noCommits)
		}
	}
}

// C01_Run: prefix ; (adversarial multicast to a symbolic subset ; full FIFO flush)^a ; agreement.
func C01_Run() {
	byz := env.Param("byz")
	w := equalWeights(4)
	if env.Param("weights") == 1 {
		w = []uint64{1, 2, 3, 4}
	}
	c := newCluster(byz, w)
	c.prefix(env.Param("prefix"), env.Param("timeout"))
	c.checkAgreement()
	if env.Param("debug") == 1 {
		for _, i := range c.correct() {
			n := c.nodes[i]
			line := "node" + string(rune('0'+i)) + " view=" + string(rune('0'+int(n.m.state.View()))) + " commits=" + string(rune('0'+len(n.commits))) + " out:"
			for _, s := range n.comm.Out {
				line += " " + s.Msg.MessageType().String()[11:] + "@" + string(rune('0'+int(s.Msg.View())))
			}
			env.Note(line)
		}
	}
	steps := env.Param("steps")
	kinds := env.Param("kinds") // one decimal digit per step
	class := env.Param("class") // 0: unrestricted; 1: only the known-finding class; 2: known-finding class excluded
	div := 1
	for i := 1; i < steps; i++ {
		div *= 10
	}
	cs := c.correct()
	for i := 0; i < steps; i++ {
		kind := (kinds / div) % 10
		div /= 10
		raw, view := c.advMessage(kind, "a")
		if kind == 0 {
			// known-finding class S7: a stand-alone PREPREPARE for a view above 0
			switch class {
			case 1:
				env.Assume(view > 0)
			case 2:
				env.Assume(view == 0)
			}
		}
		// recipients: a symbolic non-empty subset of the correct nodes (param recipients < 0) or a fixed one
		sub := env.Param("recipients")
		if sub < 0 {
			sub = env.Choice("recipients", 7) + 1
		}
		for k, j := range cs {
			if sub&(1<<uint(k)) != 0 {
				c.nodes[j].deliver(raw)
			}
		}
		if env.Param("redeliver") == 1 {
			// delayed and duplicated honest traffic: everything sent so far is (re-)delivered
			for k := range c.next {
				c.next[k] = 0
			}
		}
		c.flush(nil)
		c.checkAgreement()
		if env.ParamOr("byzfollow", 0) == 1 {
			c.byzFollow()
			c.flush(nil)
			c.checkAgreement()
		}
	}
	ncommitted := 0
	for _, j := range cs {
		ncommitted += len(c.nodes[j].commits)
	}
	if ncommitted >= 2 {
		env.Reach("C01.two_commits")
	}
	if ncommitted >= 1 {
		env.Reach("C01.some_commit")
	}
}

// prefixTwoLocks (prefix 6, Byzantine member 2, nobody forges anything): a node must carry its LATEST lock.
//   view 0: the honest leader 0 proposes X; only node 3 becomes prepared on X (it alone sees the PREPAREs);
//   view 1: everybody times out, node 3's vote (with its proof of X) is lost, the correct leader 1 is elected by
//           proof-less votes (one of them the Byzantine member's) and proposes a fresh Y; nodes 0 and 3 adopt it,
//           exchange PREPAREs (the leader sees none) and are prepared on Y@1; node 0 commits Y with node 3's COMMIT
//           and a genuine Byzantine COMMIT;
//   views 2, 3: nodes 1 and 3 time out twice (the Byzantine leader of view 2 stays silent); node 3 leads view 3 and
//           is elected by its own vote, node 1's proof-less vote and a Byzantine proof-less vote. Its own vote must
//           carry Y@1 (its latest lock), so it re-proposes Y; the Byzantine member goes along with whatever follows.
func (c *vCluster) prefixTwoLocks() {
	env.Assume(c.byz == 2)
	const N = 3
	net := c.wd.net
	lost := func(from, to int, m interfaces.ConsensusMessage) bool { return false }
	isType := func(t protocol.MessageType, v primitives.View) func(m interfaces.ConsensusMessage) bool {
		return func(m interfaces.ConsensusMessage) bool { return m.MessageType() == t && m.View() == v }
	}
	c.flush(func(from, to int, m interfaces.ConsensusMessage) bool { return m.MessageType() == protocol.LEAN_HELIX_PREPREPARE })
	x := c.nodes[0].bu.Requests[0].Hash
	c.handDeliver(1, N, isType(protocol.LEAN_HELIX_PREPARE, 0))
	c.nodes[N].deliver(net.pm(c.byz, 1, 0, x).ToConsensusRawMessage())
	c.flush(lost)
	for _, i := range c.correct() {
		c.nodes[i].timeout()
	}
	c.handDeliver(0, 1, isType(protocol.LEAN_HELIX_VIEW_CHANGE, 1))
	c.nodes[1].deliver(net.vcm(c.byz, 1, 1, nil).ToConsensusRawMessage())
	for _, to := range []int{0, N} {
		c.handDeliver(1, to, isType(protocol.LEAN_HELIX_NEW_VIEW, 1))
	}
	c.handDeliver(0, N, isType(protocol.LEAN_HELIX_PREPARE, 1))
	c.handDeliver(N, 0, isType(protocol.LEAN_HELIX_PREPARE, 1))
	c.handDeliver(N, 0, isType(protocol.LEAN_HELIX_COMMIT, 1))
	var y primitives.BlockHash
	for _, sm := range c.nodes[N].comm.Out {
		if pm, ok := sm.Msg.(*interfaces.PrepareMessage); ok && pm.View() == 1 {
			y = pm.Content().SignedHeader().BlockHash()
		}
	}
	c.nodes[0].deliver(net.cm(c.byz, 1, 1, y).ToConsensusRawMessage())
	env.Assume(len(c.nodes[0].commits) == 1 && len(c.nodes[1].commits) == 0 && len(c.nodes[N].commits) == 0 && !env.EqBytes(x, y))
	c.flush(lost)
	for r := 0; r < 2; r++ {
		c.nodes[1].timeout()
		c.nodes[N].timeout()
		if r == 0 {
			c.flush(lost)
		}
	}
	c.handDeliver(1, N, isType(protocol.LEAN_HELIX_VIEW_CHANGE, 3))
	c.nodes[N].deliver(net.vcm(c.byz, 1, 3, nil).ToConsensusRawMessage())
	c.flush(nil)
	c.byzFollow()
	c.flush(nil)
}

// prefixByzantineLedView (prefix 7, Byzantine member 1, which leads views 1 and 5):
//   view 0: the honest leader's proposal reaches nobody; all correct nodes time out; their genuine proof-less votes for
//           view 1 go to the Byzantine leader of view 1, which behaves: its NEW_VIEW carries those votes and a block X;
//   view 1: all correct nodes prepare X; the COMMITs (plus a genuine Byzantine one) reach the highest correct node only,
//           which commits X and is gone; the other two stay locked on X@1;
//   views 2..5: the two locked nodes time out four times, their votes are lost (the last ones go to the Byzantine
//           leader of view 5 anyway). Then the adversary moves (symbolic NEW_VIEW) and goes along with what follows.
func (c *vCluster) prefixByzantineLedView() {
	env.Assume(c.byz == 1)
	net := c.wd.net
	cs := c.correct() // 0, 2, 3
	lost := func(from, to int, m interfaces.ConsensusMessage) bool { return false }
	c.flush(lost) // the view-0 proposal is lost
	for _, i := range cs {
		c.nodes[i].timeout()
	}
	var votes []*interfaces.ViewChangeMessage
	for _, i := range cs {
		for _, sm := range c.nodes[i].comm.Out {
			if vc, ok := sm.Msg.(*interfaces.ViewChangeMessage); ok && vc.View() == 1 {
				votes = append(votes, vc)
			}
		}
	}
	env.Assume(len(votes) == 3)
	x := &stub.Block{H: 1, Tag: 0x61, ProposalOK: true}
	nv := net.nvm(c.byz, 1, 1, votes, x).ToConsensusRawMessage()
	c.flush(lost)
	for _, i := range cs {
		c.nodes[i].deliver(nv)
	}
	noCommits := func(from, to int, m interfaces.ConsensusMessage) bool {
		_, isC := m.(*interfaces.CommitMessage)
		return !isC
	}
	c.flush(noCommits)
	last := cs[len(cs)-1]
	for _, i := range cs[:len(cs)-1] {
		c.handDeliver(i, last, func(m interfaces.ConsensusMessage) bool {
			return m.MessageType() == protocol.LEAN_HELIX_COMMIT && m.View() == 1
		})
	}
	c.nodes[last].deliver(net.cm(c.byz, 1, 1, stub.HashOf(x)).ToConsensusRawMessage())
	env.Assume(len(c.nodes[last].commits) == 1 && len(c.nodes[cs[0]].commits) == 0 && len(c.nodes[cs[1]].commits) == 0)
	for r := 0; r < 4; r++ {
		for _, i := range cs[:len(cs)-1] {
			c.nodes[i].timeout()
		}
		c.flush(lost)
	}
	env.Assume(c.nodes[cs[0]].m.state.View() == 5)
}

// prefixEarlyCommit (prefix 8, Byzantine member 3, nobody forges anything): a COMMIT is not a PREPARE.
//   view 0: a genuine Byzantine COMMIT(X) reaches node 2 before the honest leader's proposal; the PREPAREs of nodes 1
//           and 2 reach the leader only (it is genuinely prepared and sends COMMIT, which is lost); node 2 holds the
//           proposal, its own PREPARE and one COMMIT - no certificate; whatever COMMITs node 2 sends, and the Byzantine
//           one, reach the leader;
//   view 1: the uncommitted nodes time out; their votes and a genuine proof-less Byzantine vote reach the correct
//           leader 1; everything is then delivered and the Byzantine member goes along with what the others prepared.
func (c *vCluster) prefixEarlyCommit() {
	env.Assume(c.byz == 3)
	net := c.wd.net
	lost := func(from, to int, m interfaces.ConsensusMessage) bool { return false }
	isType := func(t protocol.MessageType, v primitives.View) func(m interfaces.ConsensusMessage) bool {
		return func(m interfaces.ConsensusMessage) bool { return m.MessageType() == t && m.View() == v }
	}
	x := c.nodes[0].bu.Requests[0].Hash
	c.nodes[2].deliver(net.cm(c.byz, 1, 0, x).ToConsensusRawMessage())
	c.flush(func(from, to int, m interfaces.ConsensusMessage) bool { return m.MessageType() == protocol.LEAN_HELIX_PREPREPARE })
	for _, i := range []int{1, 2} {
		c.handDeliver(i, 0, isType(protocol.LEAN_HELIX_PREPARE, 0))
	}
	c.handDeliver(2, 0, isType(protocol.LEAN_HELIX_COMMIT, 0))
	c.nodes[0].deliver(net.cm(c.byz, 1, 0, x).ToConsensusRawMessage())
	c.flush(lost)
	for _, i := range c.correct() {
		if len(c.nodes[i].commits) == 0 {
			c.nodes[i].timeout()
		}
	}
	c.nodes[1].deliver(net.vcm(c.byz, 1, 1, nil).ToConsensusRawMessage())
	c.flush(nil)
	c.byzFollow()
	c.flush(nil)
}

// prefixSecondProposal (prefix 9, Byzantine member 1 = leader of view 1; it signs only under its own key):
//   view 0: everybody is locked on the honest proposal A; the highest correct node commits it (with a genuine Byzantine
//           COMMIT) and is gone; the other two time out, their votes (with proofs of A@0) reach the Byzantine leader;
//   view 1: it sends the valid NEW_VIEW re-proposing A, and then a stand-alone PREPREPARE(Y) for the SAME view; the
//           PREPAREs of view 1 reach nobody but the Byzantine member (nobody is prepared in view 1);
//   view 2: the two nodes time out again; the Byzantine member votes with whatever certificate for Y@1 it could
//           assemble from PREPAREs the correct nodes really sent (none, unless they answered the second proposal);
//           everything is delivered and it goes along with what the others prepare.
func (c *vCluster) prefixSecondProposal() {
	env.Assume(c.byz == 1)
	net := c.wd.net
	lost := func(from, to int, m interfaces.ConsensusMessage) bool { return false }
	c.prefix(2, 0) // locked on A, the highest correct node committed
	cs := c.correct()
	live := cs[:len(cs)-1] // nodes 0 and 2
	for _, i := range live {
		c.nodes[i].timeout()
	}
	var votes []*interfaces.ViewChangeMessage
	var a interfaces.Block
	for _, i := range live {
		for _, sm := range c.nodes[i].comm.Out {
			if vc, ok := sm.Msg.(*interfaces.ViewChangeMessage); ok && vc.View() == 1 {
				votes = append(votes, vc)
				a = vc.Block()
			}
		}
	}
	env.Assume(len(votes) == 2 && a != nil)
	ablk, _ := a.(*stub.Block)
	votes = append(votes, net.vcm(c.byz, 1, 1, nil))
	c.flush(lost)
	nv := net.nvm(c.byz, 1, 1, votes, ablk).ToConsensusRawMessage()
	y := &stub.Block{H: 1, Tag: 0x63, ProposalOK: true}
	ppY := net.ppm(c.byz, 1, 1, y)
	for _, i := range live {
		c.nodes[i].deliver(nv)
		c.nodes[i].deliver(ppY.ToConsensusRawMessage())
	}
	// the Byzantine member harvests the PREPAREs for Y that the correct nodes really sent
	var preps []*interfaces.PrepareMessage
	for _, i := range live {
		for _, sm := range c.nodes[i].comm.Out {
			if pm, ok := sm.Msg.(*interfaces.PrepareMessage); ok && pm.View() == 1 && env.EqBytes(pm.Content().SignedHeader().BlockHash(), stub.HashOf(y)) {
				preps = append(preps, pm)
			}
		}
	}
	c.flush(lost)
	for _, i := range live {
		c.nodes[i].timeout()
	}
	if len(preps) > 0 {
		cert := &preparedmessages.PreparedMessages{PreprepareMessage: ppY, PrepareMessages: preps}
		c.nodes[2].deliver(net.vcm(c.byz, 1, 2, cert).ToConsensusRawMessage())
	} else {
		c.nodes[2].deliver(net.vcm(c.byz, 1, 2, nil).ToConsensusRawMessage())
	}
	c.flush(nil)
	c.byzFollow()
	c.flush(nil)
}
