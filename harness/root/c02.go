package leanhelix

import (
	"context"

	"github.com/orbs-network/lean-helix-go/services/interfaces"
	"github.com/orbs-network/lean-helix-go/services/randomseed"
	"github.com/orbs-network/lean-helix-go/spec/types/go/primitives"
	"github.com/orbs-network/lean-helix-go/spec/types/go/protocol"
	"github.com/orbs-network/lean-helix-go/state"
	env "github.com/orbs-network/lean-helix-go/zzverifenv"
	stub "github.com/orbs-network/lean-helix-go/zzverifstub"
)

func init() {
	env.Register("C02_Struct", C02_Struct)
	env.Register("C02_Bytes", C02_Bytes)
	env.Register("C02_Mutate", C02_Mutate)
}

type c02Env struct {
	reg      *stub.Registry
	km       *stub.KeyManager
	mem      *stub.Membership
	bu       *stub.BlockUtils
	cfg      *interfaces.Config
	worker   *WorkerLoop
	ids      []byte
	w        []uint64
	total    uint64
	instance primitives.InstanceId
}

// committee of n members, ids 1..n, symbolic weights whose total fits in 64 bits
func newC02Env(n int) *c02Env { return newC02EnvW(n, nil) }

// fixed != nil: concrete weights (harnesses about parsing, where symbolic quorum arithmetic only costs solver time)
func newC02EnvW(n int, fixed []uint64) *c02Env {
	e := &c02Env{reg: stub.NewRegistry()}
	e.ids = make([]byte, n)
	e.w = make([]uint64, n)
	members := make([]interfaces.CommitteeMember, n)
	for i := 0; i < n; i++ {
		e.ids[i] = byte(i + 1)
		if fixed != nil {
			e.w[i] = fixed[i]
		} else {
			e.w[i] = env.NondetU64("w")
			env.Assume(env.Not(env.AddOverflows(e.total, e.w[i])))
		}
		e.total += e.w[i]
		members[i] = interfaces.CommitteeMember{Id: primitives.MemberId{e.ids[i]}, Weight: primitives.MemberWeight(e.w[i])}
	}
	// total weight 0 is allowed: floor((0-1)/3) = -1, so Q = 1 and no signer set reaches it in strict mode
	me := primitives.MemberId{e.ids[0]}
	e.km = stub.NewKeyManager(e.reg, me)
	e.mem = &stub.Membership{Me: me, Committee: members}
	e.bu = &stub.BlockUtils{}
	e.instance = primitives.InstanceId(env.NondetU64("cfg_instance"))
	e.cfg = &interfaces.Config{
		InstanceId:    e.instance,
		Communication: &stub.Comm{},
		Membership:    e.mem,
		BlockUtils:    e.bu,
		KeyManager:    e.km,
		Logger:        stub.ExtLogger{},
	}
	st := state.NewState()
	e.worker = NewWorkerLoop(st, e.cfg, stub.NopLogger{}, stub.NewElection(), nil, nil)
	return e
}

func (e *c02Env) weightOf(id byte) uint64 {
	wt := uint64(0)
	for i := range e.ids {
		wt = env.IteU64(id == e.ids[i], e.w[i], wt)
	}
	return wt
}

func (e *c02Env) isMember(id byte) bool {
	m := false
	for i := range e.ids {
		m = env.Or(m, id == e.ids[i])
	}
	return m
}

// C02_Struct: proofs built with the real BlockProofBuilder from symbolic field values.
func C02_Struct() {
	n := 4
	k := env.Param("signers")
	e := newC02Env(n)
	if env.ParamOr("warmup", 0) == 1 {
		// two calls per run: concrete equal weights (with symbolic weights every query of both calls carries the
		// 64-bit division terms of the threshold and z3 spends its budget on them; the first run took 20 min)
		e = newC02EnvW(n, []uint64{1, 1, 1, 1})
	}
	soft := env.NondetBool("soft")
	e.mem.FailForProof = env.NondetBool("membership_error")

	refB := &protocol.BlockRefBuilder{
		MessageType: protocol.MessageType(env.NondetU16("type")),
		InstanceId:  primitives.InstanceId(env.NondetU64("instance")),
		BlockHeight: primitives.BlockHeight(env.NondetU64("height")),
		View:        primitives.View(env.NondetU64("view")),
		BlockHash:   primitives.BlockHash{env.NondetU8("hash")},
	}
	refRaw := refB.Build().Raw()
	sid := make([]byte, k)
	sigs := make([][]byte, k)
	valid := make([]bool, k)
	nodes := make([]*protocol.SenderSignatureBuilder, k)
	for j := 0; j < k; j++ {
		sid[j] = env.NondetU8("signer")
		// either somebody holding this id's key signed exactly these block-ref bytes, or the
		// signature is 8 arbitrary bytes (which may replay any token in the registry): no fork
		proper := env.NondetBool("properly_signed")
		tok := e.reg.Sign(stub.KindConsensus, []byte{sid[j]}, uint64(refB.BlockHeight), refRaw)
		arb := env.NondetBytes("sig", 8)
		sigs[j] = make([]byte, 8)
		for x := 0; x < 8; x++ {
			sigs[j][x] = env.IteU8(proper, tok[x], arb[x])
		}
		nodes[j] = &protocol.SenderSignatureBuilder{MemberId: primitives.MemberId{sid[j]}, Signature: sigs[j]}
	}
	for j := 0; j < k; j++ {
		valid[j] = e.reg.Valid(stub.KindConsensus, []byte{sid[j]}, uint64(refB.BlockHeight), refRaw, sigs[j])
	}
	var seedSig []byte
	if env.NondetBool("has_seed_sig") {
		seedSig = env.NondetBytes("seedsig", 8)
	}
	proof := (&protocol.BlockProofBuilder{BlockRef: refB, Nodes: nodes, RandomSeedSignature: seedSig}).Build().Raw()

	var prevProof []byte
	prevSeedSig := []byte(nil)
	if env.NondetBool("has_prev_proof") {
		// concrete previous seed signature: the seed derivation (SHA-256) is then computed exactly
		prevSeedSig = []byte{0x11, 0x22, 0x33, 0x44, 0x55, 0x66, 0x77, 0x88}
		prevProof = (&protocol.BlockProofBuilder{RandomSeedSignature: prevSeedSig}).Build().Raw()
	}
	block := &stub.Block{H: primitives.BlockHeight(env.NondetU64("block_height")), Tag: env.NondetU8("block_tag"), RefTime: 5}
	prevBlock := &stub.Block{H: block.H - 1, RefTime: 4}

	// committees change between heights: any other height gets a committee of other members (ids 101..)
	e.mem.ProofCommittee = func(h primitives.BlockHeight) []interfaces.CommitteeMember {
		if h == block.H {
			return e.mem.Committee
		}
		alt := make([]interfaces.CommitteeMember, len(e.mem.Committee))
		for i, m := range e.mem.Committee {
			alt[i] = interfaces.CommitteeMember{Id: primitives.MemberId{byte(101 + i)}, Weight: m.Weight}
		}
		return alt
	}
	if env.ParamOr("warmup", 0) == 1 {
		// the verdict must not depend on what the same validator was asked before: an earlier call with the same
		// certificate in an arbitrary mode (its outcome is ignored) precedes the judged call
		soft0 := env.NondetBool("warmup_soft")
		p0 := env.Catch(func() {
			_ = e.worker.ValidateBlockConsensus(context.Background(), block, proof, prevBlock, prevProof, soft0)
		})
		env.Assert("C02.no_panic.struct", p0 == 0)
	}
	var err error
	p := env.Catch(func() {
		err = e.worker.ValidateBlockConsensus(context.Background(), block, proof, prevBlock, prevProof, soft)
	})
	env.Assert("C02.no_panic.struct", p == 0)
	if p != 0 || err != nil {
		return
	}
	env.Reach("C02.accepted")
	env.Assert("C02.type", refB.MessageType == protocol.LEAN_HELIX_COMMIT)
	env.Assert("C02.instance", refB.InstanceId == e.instance)
	env.Assert("C02.height", refB.BlockHeight == block.H)
	env.Assert("C02.commitment", refB.BlockHash[0] == block.Tag)
	env.Assert("C02.committee_available", !e.mem.FailForProof)
	for _, r := range e.mem.ProofRequests {
		env.Assert("C02.committee_of_block_height", env.And(r.Height == block.H, r.RefTime == prevBlock.RefTime))
	}
	allValid, allMembers, distinct := true, true, true
	weight := uint64(0)
	for j := 0; j < k; j++ {
		allValid = env.And(allValid, valid[j])
		allMembers = env.And(allMembers, e.isMember(sid[j]))
		for j2 := 0; j2 < j; j2++ {
			distinct = env.And(distinct, sid[j] != sid[j2])
		}
	}
	for i := range e.ids {
		in := false
		for j := 0; j < k; j++ {
			in = env.Or(in, sid[j] == e.ids[i])
		}
		weight += env.IteU64(in, e.w[i], 0)
	}
	f := env.IteU64(e.total == 0, 0, (e.total-1)/3)
	q := env.IteU64(e.total == 0, 1, e.total-f)
	env.Assert("C02.sig", allValid)
	env.Assert("C02.member", allMembers)
	env.Assert("C02.distinct", distinct)
	env.Assert("C02.weight_strict", env.Implies(env.Not(soft), weight >= q))
	env.Assert("C02.weight_soft", env.Implies(env.And(soft, e.total > 0), weight > f))
	// seed signature: non-empty and the group signature over the seed derived from the previous proof
	seed := randomseed.CalculateRandomSeed(prevSeedSig)
	want := stub.GroupSeedSig(uint64(block.H), randomseed.RandomSeedToBytes(seed))
	env.Assert("C02.seed", env.And(len(seedSig) == 8, env.EqBytes(seedSig, want)))
	if soft {
		env.Reach("C02.accepted_soft")
	} else {
		env.Reach("C02.accepted_strict")
	}
}

// C02_Bytes: the proof is an arbitrary byte string of the given length.
func C02_Bytes() {
	n := 4
	L := env.Param("len")
	e := newC02Env(n)
	soft := env.NondetBool("soft")
	proof := env.NondetBytes("proof", L)
	block := &stub.Block{H: primitives.BlockHeight(env.NondetU64("block_height")), Tag: env.NondetU8("block_tag"), RefTime: 5}
	prevBlock := &stub.Block{H: block.H - 1, RefTime: 4}
	var prevProof []byte
	if env.NondetBool("has_prev_proof") {
		prevProof = (&protocol.BlockProofBuilder{RandomSeedSignature: []byte{0x11, 0x22, 0x33, 0x44, 0x55, 0x66, 0x77, 0x88}}).Build().Raw()
	}
	var err error
	p := env.Catch(func() {
		err = e.worker.ValidateBlockConsensus(context.Background(), block, proof, prevBlock, prevProof, soft)
	})
	env.Assert("C02.no_panic.bytes", p == 0)
	p2 := env.Catch(func() {
		GetMemberIdsFromBlockProof(proof)
	})
	env.Assert("C02.ids_no_panic.bytes", p2 == 0)
	if p != 0 || err != nil {
		return
	}
	env.Reach("C02.bytes_accepted")
	c02CheckParsed(e, proof, block, soft)
}

// c02CheckParsed: an accepted proof, whatever produced its bytes: the parsed view must satisfy the reference predicate
func c02CheckParsed(e *c02Env, proof []byte, block *stub.Block, soft bool) {
	bp := protocol.BlockProofReader(proof)
	ref := bp.BlockRef()
	env.Assert("C02.type", ref.MessageType() == protocol.LEAN_HELIX_COMMIT)
	env.Assert("C02.instance", ref.InstanceId() == e.instance)
	env.Assert("C02.height", ref.BlockHeight() == block.H)
	env.Assert("C02.commitment", stub.Commits(block, ref.BlockHash()))
	it := bp.NodesIterator()
	weight := uint64(0)
	seen := []byte{}
	for it.HasNext() {
		s := it.NextNodes()
		id := s.MemberId()
		env.Assert("C02.sig", e.reg.Valid(stub.KindConsensus, id, uint64(ref.BlockHeight()), ref.Raw(), s.Signature()))
		env.Assert("C02.member", env.And(len(id) == 1, e.isMember(id[0])))
		for _, x := range seen {
			env.Assert("C02.distinct", x != id[0])
		}
		seen = append(seen, id[0])
		weight += e.weightOf(id[0])
	}
	f := env.IteU64(e.total == 0, 0, (e.total-1)/3)
	env.Assert("C02.weight_strict", env.Implies(env.Not(soft), weight >= env.IteU64(e.total == 0, 1, e.total-f)))
	env.Assert("C02.weight_soft", env.Implies(env.And(soft, e.total > 0), weight > f))
}

// C02_Mutate: a genuine COMMIT certificate (k signers with genuine signatures, genuine seed signature) in which one
// 4-byte-aligned window at a symbolic position is replaced by arbitrary bytes: this reaches every length prefix and
// field of the nested structure behind checks that random bytes never pass. No panic may escape (in particular not
// from code that runs after the header checks), and acceptance implies the reference predicate on the parsed bytes.
func C02_Mutate() {
	k := env.Param("signers")
	e := newC02EnvW(4, []uint64{1, 1, 1, 1})
	soft := env.NondetBool("soft")
	block := &stub.Block{H: 7, Tag: 0x21, RefTime: 5, ProposalOK: true}
	prevBlock := &stub.Block{H: 6, RefTime: 4}
	prevSeedSig := []byte{0x11, 0x22, 0x33, 0x44, 0x55, 0x66, 0x77, 0x88}
	prevProof := (&protocol.BlockProofBuilder{RandomSeedSignature: prevSeedSig}).Build().Raw()
	refB := &protocol.BlockRefBuilder{MessageType: protocol.LEAN_HELIX_COMMIT, InstanceId: e.instance, BlockHeight: block.H, View: 3, BlockHash: primitives.BlockHash{block.Tag}}
	refRaw := refB.Build().Raw()
	var nodes []*protocol.SenderSignatureBuilder
	for j := 0; j < k; j++ {
		id := []byte{e.ids[j]}
		nodes = append(nodes, &protocol.SenderSignatureBuilder{MemberId: primitives.MemberId(id), Signature: e.reg.Sign(stub.KindConsensus, id, uint64(block.H), refRaw)})
	}
	seed := randomseed.CalculateRandomSeed(prevSeedSig)
	seedSig := stub.GroupSeedSig(uint64(block.H), randomseed.RandomSeedToBytes(seed))
	genuine := (&protocol.BlockProofBuilder{BlockRef: refB, Nodes: nodes, RandomSeedSignature: seedSig}).Build().Raw()
	proof := make([]byte, len(genuine))
	copy(proof, genuine)
	w := env.Choice("window", len(proof)/4)
	// the window as a little-endian 32-bit value: small (0..63), or within 64 of 2^32 (where 32-bit length and
	// offset arithmetic wraps); values in between are outside this harness (bound)
	v := env.NondetU32("w")
	env.Assume(v < 64 || v >= 1<<32-64)
	for i := 0; i < 4; i++ {
		proof[4*w+i] = byte(v >> (8 * uint(i)))
	}
	var err error
	p := env.Catch(func() {
		err = e.worker.ValidateBlockConsensus(context.Background(), block, proof, prevBlock, prevProof, soft)
	})
	env.Assert("C02.no_panic.mutated", p == 0)
	p2 := env.Catch(func() { GetMemberIdsFromBlockProof(proof) })
	env.Assert("C02.ids_no_panic.mutated", p2 == 0)
	if p != 0 || err != nil {
		env.Reach("C02.mutate.rejected")
		return
	}
	// (what acceptance implies is decided on structured proofs by C02_Struct; re-parsing the mutated bytes in the
	// harness would square the number of paths)
	env.Reach("C02.mutate.accepted")
}
