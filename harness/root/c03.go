package leanhelix

import (
	"context"

	"github.com/orbs-network/lean-helix-go/services/interfaces"
	"github.com/orbs-network/lean-helix-go/services/randomseed"
	"github.com/orbs-network/lean-helix-go/spec/types/go/primitives"
	"github.com/orbs-network/lean-helix-go/spec/types/go/protocol"
	env "github.com/orbs-network/lean-helix-go/zzverifenv"
	stub "github.com/orbs-network/lean-helix-go/zzverifstub"
)

func init() {
	env.Register("C03_Commits", C03_Commits)
	env.Register("C03_FutureCommit", C03_FutureCommit)
	env.Register("C04_NewViewCommit", C04_NewViewCommit)
	env.Register("C04_LeaderReproposal", C04_LeaderReproposal)
	env.Register("C03_LateCommit", C03_LateCommit)
	env.Register("C04_PanickingValidator", C04_PanickingValidator)
}

// C04_LeaderReproposal: weighted committee [1,2,3,4]; the correct node 3 (weight 4) accepted and PREPAREd
// proposal G in view 0 without becoming prepared, then times out up to view 3, which it leads. The Byzantine
// member 2 (weight 3) holds a genuine prepared proof of G (leader 0 + node 3 + itself) and votes for view 3
// with that proof but attaches a block with symbolic tag / acceptability. It then sends genuine PREPARE and
// COMMIT for the proven hash. Whatever node 3 commits must satisfy the certified hash and must have been
// approved by a correct member.
func C04_LeaderReproposal() {
	const me, byz = 3, 2
	w := []uint64{1, 2, 3, 4}
	wd := newWorld(me, w)
	n, net := wd.n, wd.net
	g := &stub.Block{H: 1, Tag: 0x21, ProposalOK: true}
	n.deliver(net.ppm(0, 1, 0, g).ToConsensusRawMessage())
	_, prep0 := wd.termPrepared()
	env.Assert("C04.setup.not_prepared", !prep0)
	n.timeout()
	n.timeout()
	n.timeout()
	env.Assert("C04.setup.leader_of_view3", n.m.state.View() == 3)
	// the Byzantine vote: genuine proof of G, arbitrary attached block
	proof := net.prepared(1, 0, g, []int{me, byz})
	full := net.vcm(byz, 1, 3, proof)
	attached := symBlock("att")
	var att interfaces.Block = attached
	if env.NondetBool("attach_the_proven_block") {
		att = g
	}
	n.deliver(interfaces.NewViewChangeMessage(full.Content(), att).ToConsensusRawMessage())
	hash := stub.HashOf(g)
	n.deliver(net.pm(byz, 1, 3, hash).ToConsensusRawMessage())
	n.deliver(net.cm(byz, 1, 3, hash).ToConsensusRawMessage())
	if len(n.commits) == 0 {
		env.Reach("C04.leader.no_commit")
		return
	}
	env.Reach("C04.leader.committed")
	c := n.commits[0]
	env.Assert("C04.block_present", c.block != nil)
	if c.block == nil {
		return
	}
	env.Assert("C04.height", c.block.H == 1)
	env.Assert("C04.hash", stub.Commits(c.block, protocol.BlockProofReader(c.proof).BlockRef().BlockHash()))
	approved := false
	for _, v := range n.bu.Validations {
		approved = env.Or(approved, env.And(v.OK, sameBlock(v.Block, c.block)))
	}
	env.Assert("C04.approved_by_correct", approved)
}

// roundWith delivers an honest view-0 round for height h to node n using the peers of `net`
// (proposal by member 0 unless n is member 0, PREPAREs and COMMITs of everybody else).
func roundWith(n *vNode, me int, net *vNet, h primitives.BlockHeight, b *stub.Block) {
	hash := stub.HashOf(b)
	if me != 0 {
		n.deliver(net.ppm(0, h, 0, b).ToConsensusRawMessage())
	}
	for i := 1; i < 4; i++ {
		if i != me {
			n.deliver(net.pm(i, h, 0, hash).ToConsensusRawMessage())
		}
	}
	for i := 0; i < 4; i++ {
		if i != me {
			n.deliver(net.cm(i, h, 0, hash).ToConsensusRawMessage())
		}
	}
}

// C03_FutureCommit: while the node is at height 1 a fully symbolic COMMIT arrives (it may be for height 2
// and sit in the future cache). The node then commits height 1 honestly, enters height 2 (draining the
// cache) and commits height 2 with honest traffic. Both certificates must pass strict validation on a peer.
func C03_FutureCommit() {
	me := env.Param("me") // 1..3
	wd := newWorld(me, paramWeights())
	n := wd.n
	n.commitErr = false
	validator := newVNode(wd.reg, wd.net.committee, (me+1)%4, vInstance)

	// the seed of height 2 is determined by the (deterministic) aggregated seed signature of height 1
	agg1 := stub.GroupSeedSig(1, randomseed.RandomSeedToBytes(wd.net.seed))
	seed2 := randomseed.CalculateRandomSeed(agg1)
	hdr := newSymRef("c")
	snd := newSymSender(wd.reg, "c_s", uint64(hdr.height), hdr.raw)
	seedBytes := randomseed.RandomSeedToBytes(seed2)
	if env.NondetBool("share_for_height1") {
		seedBytes = randomseed.RandomSeedToBytes(wd.net.seed)
	}
	share, _ := symSig(wd.reg, stub.KindSeed, []byte{snd.id}, uint64(hdr.height), seedBytes, "c_share")
	c := (&protocol.CommitContentBuilder{SignedHeader: hdr.b, Sender: snd.b, Share: share}).Build()
	n.deliver(interfaces.NewCommitMessage(c).ToConsensusRawMessage())

	b1 := &stub.Block{H: 1, Tag: 0x21, ProposalOK: true}
	roundWith(n, me, wd.net, 1, b1)
	env.Assert("C03.future.height1_committed", len(n.commits) >= 1)
	if len(n.commits) < 1 {
		return
	}
	c1 := n.commits[0]
	var err error
	pn := env.Catch(func() { err = validator.m.worker.ValidateBlockConsensus(context.Background(), c1.raw, c1.proof, nil, nil, false) })
	env.Assert("C03.strict_accepts", env.And(pn == 0, err == nil))
	env.Assert("C03.future.seed_model", env.EqBytes(protocol.BlockProofReader(c1.proof).RandomSeedSignature(), agg1))
	env.Assert("C03.future.entered_height2", n.m.state.Height() == 2)
	if n.m.state.Height() != 2 || pn != 0 || err != nil {
		return
	}
	// height 2: honest peers whose seed comes from the height-1 proof
	net2 := newVNet(wd.reg, wd.net.committee, vInstance, c1.proof)
	n.commitErr = true
	b2 := &stub.Block{H: 2, Tag: 0x23, ProposalOK: true}
	roundWith(n, me, net2, 2, b2)
	env.Assert("C03.future.height2_committed", len(n.commits) == 2)
	if len(n.commits) != 2 {
		return
	}
	c2 := n.commits[1]
	pn = env.Catch(func() { err = validator.m.worker.ValidateBlockConsensus(context.Background(), c2.raw, c2.proof, c1.raw, c1.proof, false) })
	env.Assert("C03.strict_accepts", env.And(pn == 0, err == nil))
	env.Reach("C03.future.two_heights")
}

// C04_NewViewCommit: a node that timed out to view 1 receives one NEW_VIEW whose fields, votes and prepared
// proof are entirely symbolic, then genuine PREPAREs and COMMITs of the other members for whatever it
// accepted. If it commits, the block must have been approved by a correct member's consumer: by this
// node's ValidateBlockProposal in this run, or it is certified by a valid prepared proof (PREPAREs of
// correct members are only ever sent for proposals their consumer approved).
func C04_NewViewCommit() {
	me := env.Param("me") // 0, 2 or 3
	mask := env.Param("proofmask")
	wd := newWorld(me, paramWeights())
	n, ref := wd.n, wd.ref
	wd.prefix(env.ParamOr("prefix", 3)) // 3: timed out from a fresh state; 7: holds the (unprepared) view-0 proposal
	H := primitives.BlockHeight(1)
	var vs []*symVote
	var vbs []*protocol.ViewChangeMessageContentBuilder
	for i := 0; i < 3; i++ {
		v := newSymVote(wd.reg, "v", mask&(1<<uint(i)) != 0, 2)
		vs = append(vs, v)
		vbs = append(vbs, v.b)
	}
	nvView := primitives.View(env.NondetU64("nv_view"))
	nh := &protocol.NewViewHeaderBuilder{MessageType: protocol.LEAN_HELIX_NEW_VIEW, InstanceId: vInstance, BlockHeight: H, View: nvView, ViewChangeConfirmations: vbs}
	nvSnd := newSymSender(wd.reg, "nv_s", uint64(H), nh.Build().Raw())
	pp := newSymRef("pp")
	ppSnd := newSymSender(wd.reg, "pp_s", uint64(pp.height), pp.raw)
	content := (&protocol.NewViewMessageContentBuilder{SignedHeader: nh, Sender: nvSnd.b, Message: &protocol.PreprepareContentBuilder{SignedHeader: pp.b, Sender: ppSnd.b}}).Build()
	blk := symBlock("blk")
	s0 := n.snap()
	n.deliver(interfaces.NewNewViewMessage(content, blk).ToConsensusRawMessage())
	if !n.influenced(s0) {
		return
	}
	env.Reach("C04.nv.accepted")
	// the other members go along: PREPAREs and COMMITs for exactly what the node prepared
	var myPrep *interfaces.PrepareMessage
	for _, s := range n.comm.Out[s0.out:] {
		if pm, ok := s.Msg.(*interfaces.PrepareMessage); ok {
			myPrep = pm
		}
	}
	if myPrep == nil {
		return
	}
	pv, ph := myPrep.View(), myPrep.Content().SignedHeader().BlockHash()
	for i := 0; i < 4; i++ {
		if i != me && byte(i+1) != ref.leader(pv) {
			n.deliver(wd.net.pm(i, H, pv, ph).ToConsensusRawMessage())
		}
	}
	for i := 0; i < 4; i++ {
		if i != me {
			n.deliver(wd.net.cm(i, H, pv, ph).ToConsensusRawMessage())
		}
	}
	if len(n.commits) == 0 {
		return
	}
	env.Reach("C04.nv.committed")
	c := n.commits[0]
	env.Assert("C04.block_present", c.block != nil)
	if c.block == nil {
		return
	}
	env.Assert("C04.height", c.block.H == H)
	env.Assert("C04.hash", stub.Commits(c.block, protocol.BlockProofReader(c.proof).BlockRef().BlockHash()))
	approved := false
	for _, v := range n.bu.Validations {
		approved = env.Or(approved, env.And(v.OK, sameBlock(v.Block, c.block)))
	}
	// or certified by a valid prepared proof carried by a genuine vote of the accepted NEW_VIEW
	for _, v := range vs {
		if v.proof == nil {
			continue
		}
		good := env.And(v.instance == vInstance, env.And(v.height == H, env.And(v.view == nvView, env.And(v.snd.isValid(), ref.member(v.snd.id)))))
		approved = env.Or(approved, env.And(good, env.And(ref.proofOK(v.proof, H, nvView), v.proof.pp.hash == c.block.Tag)))
	}
	env.Assert("C04.approved_by_correct", approved)
}

// symCommit builds one COMMIT with every field symbolic (header incl. type tag, sender, signature and share validity).
func symCommit(wd *vWorld, name string) (*interfaces.ConsensusRawMessage, *symRef, *symSender, bool) {
	hdr := newSymRef(name)
	snd := newSymSender(wd.reg, name+"_s", uint64(hdr.height), hdr.raw)
	seedBytes := randomseed.RandomSeedToBytes(wd.net.seed)
	share, shareOK := symSig(wd.reg, stub.KindSeed, []byte{snd.id}, uint64(hdr.height), seedBytes, name+"_share")
	c := (&protocol.CommitContentBuilder{SignedHeader: hdr.b, Sender: snd.b, Share: share}).Build()
	return interfaces.NewCommitMessage(c).ToConsensusRawMessage(), hdr, snd, shareOK
}

// checkCommit: the C03 / C04 assertions at a commit callback of node wd.n.
func (wd *vWorld) checkCommit(c *vCommit, validator *vNode) {
	n := wd.n
	// C03: strict validation on another correct node with the same committee and previous proof
	var err error
	pn := env.Catch(func() {
		err = validator.m.worker.ValidateBlockConsensus(context.Background(), c.raw, c.proof, nil, nil, false)
	})
	env.Assert("C03.strict_accepts", env.And(pn == 0, err == nil))
	// C04: external validity
	env.Assert("C04.block_present", c.block != nil)
	if c.block == nil {
		return
	}
	env.Assert("C04.height", c.block.H == wd.H)
	bp := protocol.BlockProofReader(c.proof)
	ref := bp.BlockRef()
	env.Assert("C04.hash", stub.Commits(c.block, ref.BlockHash()))
	// the stored proposal of the certified view is signed by that view's leader
	ppm, ok := n.st.GetPreprepareMessage(ref.BlockHeight(), ref.View())
	env.Assert("C04.proposal_stored", ok)
	if ok {
		s := ppm.Content().Sender()
		hd := ppm.Content().SignedHeader()
		env.Assert("C04.leader_signed", env.And(wd.reg.Valid(stub.KindConsensus, s.MemberId(), uint64(hd.BlockHeight()), hd.Raw(), s.Signature()),
			env.And(len(s.MemberId()) == 1, s.MemberId()[0] == wd.ref.leader(hd.View()))))
		env.Assert("C04.same_block", ppm.Block() == c.raw)
	}
	// approved by a correct member's consumer: validated OK here, or produced by this node's own RequestNewBlockProposal
	approved := false
	for _, v := range n.bu.Validations {
		approved = env.Or(approved, env.And(v.OK, sameBlock(v.Block, c.block)))
	}
	for _, r := range n.bu.Requests {
		approved = env.Or(approved, sameBlock(r.Block, c.block))
	}
	env.Assert("C04.approved_by_correct", approved)
}

// C03_Commits: a node holding a proposal receives `honest` genuine COMMITs followed by `sym` fully symbolic
// COMMITs (any sender incl. outsiders with valid keys, any header fields); whenever the commit callback
// fires its (block, proof) must pass strict validation on a second correct node.
func C03_Commits() {
	honest := env.Param("honest")
	sym := env.Param("sym")
	me := env.Param("me")
	wd := newWorld(me, paramWeights())
	if me != 0 {
		wd.prefix(1)
	} else {
		wd.blk = nil // the leader proposed its own block at start
	}
	n := wd.n
	validator := newVNode(wd.reg, wd.net.committee, (me+1)%4, vInstance)
	var hash primitives.BlockHash
	if me != 0 {
		hash = stub.HashOf(wd.blk)
	} else {
		hash = n.bu.Requests[0].Hash
	}
	sent := 0
	for i := 0; i < 4 && sent < honest; i++ {
		if i == me {
			continue
		}
		n.deliver(wd.net.cm(i, 1, 0, hash).ToConsensusRawMessage())
		sent++
	}
	for j := 0; j < sym; j++ {
		raw, _, _, _ := symCommit(wd, "c")
		n.deliver(raw)
	}
	if len(n.commits) == 0 {
		return
	}
	env.Reach("C03.committed")
	env.Assert("C03.commit_once", len(n.commits) == 1)
	wd.checkCommit(n.commits[0], validator)
}

// sameBlock: block identity under the collision-free hash model: equal height and tag (the tag determines
// acceptability), whatever Go object carries them.
func sameBlock(a, b *stub.Block) bool {
	if a == nil || b == nil {
		return false
	}
	return env.And(a.H == b.H, a.Tag == b.Tag)
}

// C03_LateCommit: the COMMITs of view 0 are delayed. The node accepted (and, for prepared=1, prepared) the
// view-0 proposal G, times out `timeouts` times, receives one fully symbolic PREPREPARE (e.g. a validly
// signed proposal of another block by the Byzantine leader of the later view) and optionally one symbolic
// PREPARE, and only then the delayed genuine COMMITs for (view 0, G). Whatever it hands to the commit
// callback must pass strict validation on a peer and satisfy the certified hash.
func C03_LateCommit() {
	me := env.Param("me") // 1..3
	wd := newWorld(me, paramWeights())
	n := wd.n
	if env.Param("prepared") == 1 {
		wd.prefix(2)
	} else {
		wd.prefix(1)
	}
	validator := newVNode(wd.reg, wd.net.committee, (me+1)%4, vInstance)
	hash := stub.HashOf(wd.blk)
	for t := 0; t < env.Param("timeouts"); t++ {
		n.timeout()
	}
	hdr := newSymRef("pp")
	snd := newSymSender(wd.reg, "pp_s", uint64(hdr.height), hdr.raw)
	cont := (&protocol.PreprepareContentBuilder{SignedHeader: hdr.b, Sender: snd.b}).Build()
	s0 := n.snap()
	n.deliver(interfaces.NewPreprepareMessage(cont, symBlock("pp_blk")).ToConsensusRawMessage())
	if n.influenced(s0) {
		env.Reach("C03.late.later_proposal_stored")
	}
	if env.Param("prepare") == 1 {
		n.deliver(symPrepareRaw(wd, "p"))
	}
	for i := 0; i < 4; i++ {
		if i != me {
			n.deliver(wd.net.cm(i, 1, 0, hash).ToConsensusRawMessage())
		}
	}
	if len(n.commits) == 0 {
		// (with some weight vectors the three other members' COMMITs do not reach the quorum without the node's own)
		env.Reach("C03.late.no_commit")
		return
	}
	env.Reach("C03.late.commit")
	env.Assert("C03.commit_once", len(n.commits) == 1)
	wd.checkCommit(n.commits[0], validator)
}

// C04_PanickingValidator: the consumer's ValidateBlockProposal has a bug: it panics on one particular block. The
// leader proposes exactly that block, in view 0 by PREPREPARE or in view 1 inside a genuine proof-less NEW_VIEW; the
// other members PREPARE and COMMIT it. This node's validator never approved it (the worker's handler recovers the
// panic and drops the message), so the node neither PREPAREs it nor hands it to its commit callback as a block it
// approved.
func C04_PanickingValidator() {
	me := env.Param("me") // 2 or 3
	wd := newWorld(me, paramWeights())
	n, net := wd.n, wd.net
	bad := &stub.Block{H: 1, Tag: 0x2B, ProposalOK: true}
	n.bu.PanicTag = bad.Tag
	hash := stub.HashOf(bad)
	view := primitives.View(0)
	p := 0
	deliver := func(raw *interfaces.ConsensusRawMessage) {
		if q := env.Catch(func() { n.m.worker.handleRawMessage(raw) }); q != 0 {
			p = q
		}
	}
	if env.NondetBool("inside_new_view") {
		view = 1
		n.timeout()
		var votes []*interfaces.ViewChangeMessage
		for _, i := range othersOf(me) {
			votes = append(votes, net.vcm(i, 1, 1, nil))
		}
		deliver(net.nvm(1, 1, 1, votes, bad).ToConsensusRawMessage())
	} else {
		deliver(net.ppm(0, 1, 0, bad).ToConsensusRawMessage())
	}
	for _, i := range othersOf(me, int(uint64(view)%4)) {
		deliver(net.pm(i, 1, view, hash).ToConsensusRawMessage())
	}
	for _, i := range othersOf(me) {
		deliver(net.cm(i, 1, view, hash).ToConsensusRawMessage())
	}
	env.Assert("C12.worker.no_panic", p == 0)
	for _, sm := range n.comm.Out {
		if pm, ok := sm.Msg.(*interfaces.PrepareMessage); ok {
			env.Assert("C04.prepare_only_for_approved", !env.EqBytes(pm.Content().SignedHeader().BlockHash(), hash))
		}
	}
	for _, c := range n.commits {
		env.Assert("C04.approved_by_correct", c.block == nil || c.block.Tag != bad.Tag)
	}
	env.Reach("C04.panicking_validator.done")
}
