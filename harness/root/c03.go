package leanhelix

import (
	"context"

	"github.com/orbs-network/lean-helix-go/services/interfaces"
	"github.com/orbs-network/lean-helix-go/services/randomseed"
	"github.com/orbs-network/lean-helix-go/spec/types/go/primitives"
	"github.com/orbs-network/lean-helix-go/spec/types/go/protocol"
	env "github.com/orbs-network/lean-helix-go/zzverifenv"
	stub "github.com/orbs-network/lean-helix-go/zzverifstub"
)

func init() {
	env.Register("C03_Commits", C03_Commits)
}

// symCommit builds one COMMIT with every field symbolic (header incl. type tag, sender, signature and share validity).
func symCommit(wd *vWorld, name string) (*interfaces.ConsensusRawMessage, *symRef, *symSender, bool) {
	hdr := newSymRef(name)
	snd := newSymSender(wd.reg, name+"_s", uint64(hdr.height), hdr.raw)
	seedBytes := randomseed.RandomSeedToBytes(wd.net.seed)
	share, shareOK := symSig(wd.reg, stub.KindSeed, []byte{snd.id}, uint64(hdr.height), seedBytes, name+"_share")
	c := (&protocol.CommitContentBuilder{SignedHeader: hdr.b, Sender: snd.b, Share: share}).Build()
	return interfaces.NewCommitMessage(c).ToConsensusRawMessage(), hdr, snd, shareOK
}

// checkCommit: the C03 / C04 assertions at a commit callback of node wd.n.
func (wd *vWorld) checkCommit(c *vCommit, validator *vNode) {
	n := wd.n
	// C03: strict validation on another correct node with the same committee and previous proof
	var err error
	pn := env.Catch(func() {
		err = validator.m.worker.ValidateBlockConsensus(context.Background(), c.raw, c.proof, nil, nil, false)
	})
	env.Assert("C03.strict_accepts", env.And(pn == 0, err == nil))
	// C04: external validity
	env.Assert("C04.block_present", c.block != nil)
	if c.block == nil {
		return
	}
	env.Assert("C04.height", c.block.H == wd.H)
	bp := protocol.BlockProofReader(c.proof)
	ref := bp.BlockRef()
	env.Assert("C04.hash", stub.Commits(c.block, ref.BlockHash()))
	// the stored proposal of the certified view is signed by that view's leader
	ppm, ok := n.st.GetPreprepareMessage(ref.BlockHeight(), ref.View())
	env.Assert("C04.proposal_stored", ok)
	if ok {
		s := ppm.Content().Sender()
		hd := ppm.Content().SignedHeader()
		env.Assert("C04.leader_signed", env.And(wd.reg.Valid(stub.KindConsensus, s.MemberId(), uint64(hd.BlockHeight()), hd.Raw(), s.Signature()),
			env.And(len(s.MemberId()) == 1, s.MemberId()[0] == wd.ref.leader(hd.View()))))
		env.Assert("C04.same_block", ppm.Block() == c.raw)
	}
	// approved by a correct member's consumer: validated OK here, or produced by this node's own RequestNewBlockProposal
	approved := false
	for _, v := range n.bu.Validations {
		approved = env.Or(approved, env.And(v.OK, v.Block == c.block))
	}
	for _, r := range n.bu.Requests {
		approved = env.Or(approved, r.Block == c.block)
	}
	env.Assert("C04.approved_by_correct", approved)
}

// C03_Commits: a node holding a proposal receives `honest` genuine COMMITs followed by `sym` fully symbolic
// COMMITs (any sender incl. outsiders with valid keys, any header fields); whenever the commit callback
// fires its (block, proof) must pass strict validation on a second correct node.
func C03_Commits() {
	honest := env.Param("honest")
	sym := env.Param("sym")
	me := env.Param("me")
	wd := newWorld(me, equalWeights(4))
	if me != 0 {
		wd.prefix(1)
	} else {
		wd.blk = nil // the leader proposed its own block at start
	}
	n := wd.n
	validator := newVNode(wd.reg, wd.net.committee, (me+1)%4, vInstance)
	var hash primitives.BlockHash
	if me != 0 {
		hash = stub.HashOf(wd.blk)
	} else {
		hash = n.bu.Requests[0].Hash
	}
	sent := 0
	for i := 0; i < 4 && sent < honest; i++ {
		if i == me {
			continue
		}
		n.deliver(wd.net.cm(i, 1, 0, hash).ToConsensusRawMessage())
		sent++
	}
	for j := 0; j < sym; j++ {
		raw, _, _, _ := symCommit(wd, "c")
		n.deliver(raw)
	}
	if len(n.commits) == 0 {
		return
	}
	env.Reach("C03.committed")
	env.Assert("C03.commit_once", len(n.commits) == 1)
	wd.checkCommit(n.commits[0], validator)
}
