package leanhelix

import (
	"github.com/orbs-network/lean-helix-go/services/interfaces"
	"github.com/orbs-network/lean-helix-go/spec/types/go/primitives"
	"github.com/orbs-network/lean-helix-go/spec/types/go/protocol"
	env "github.com/orbs-network/lean-helix-go/zzverifenv"
	stub "github.com/orbs-network/lean-helix-go/zzverifstub"
)

func init() {
	env.Register("C07_NewView", C07_NewView)
	env.Register("C07_BarePreprepare", C07_BarePreprepare)
	env.Register("C07_FutureNewView", C07_FutureNewView)
}

// symVote: one VIEW_CHANGE confirmation with every field symbolic.
type symVote struct {
	instance primitives.InstanceId
	height   primitives.BlockHeight
	view     primitives.View
	typ      protocol.MessageType
	snd      *symSender
	proof    *symProof
	b        *protocol.ViewChangeMessageContentBuilder
}

func newSymVote(reg *stub.Registry, name string, withProof bool, prepares int) *symVote {
	v := &symVote{
		instance: primitives.InstanceId(env.NondetU64(name + "_instance")),
		height:   primitives.BlockHeight(env.NondetU64(name + "_height")),
		view:     primitives.View(env.NondetU64(name + "_view")),
		typ:      protocol.MessageType(env.NondetU16(name + "_type")),
	}
	hb := &protocol.ViewChangeHeaderBuilder{MessageType: v.typ, InstanceId: v.instance, BlockHeight: v.height, View: v.view}
	if withProof {
		v.proof = newSymProof(reg, name+"_pr", prepares)
		hb.PreparedProof = v.proof.b
	}
	if k := env.ParamOr("trailing", 0); k > 0 {
		// non-canonical encoding of the vote's own header: extra bytes after its last field, signed as they are
		raw := append(append([]byte{}, hb.Build().Raw()...), env.NondetBytes(name+"_trailing", k)...)
		hb = protocol.ViewChangeHeaderBuilderFromRaw(raw)
	}
	v.snd = newSymSender(reg, name+"_s", uint64(v.height), hb.Build().Raw())
	v.b = &protocol.ViewChangeMessageContentBuilder{SignedHeader: hb, Sender: v.snd.b}
	return v
}

func btoi(b bool) int {
	if b {
		return 1
	}
	return 0
}

// genuineSymVote: member idx's genuine proof-less vote for (this instance, height 1, view), in the shape of a symVote
func genuineSymVote(wd *vWorld, idx int, view primitives.View) *symVote {
	v := &symVote{instance: vInstance, height: 1, view: view, typ: protocol.LEAN_HELIX_VIEW_CHANGE}
	hb := &protocol.ViewChangeHeaderBuilder{MessageType: v.typ, InstanceId: v.instance, BlockHeight: v.height, View: v.view}
	content := hb.Build().Raw()
	id := []byte{byte(idx + 1)}
	sig := wd.reg.Sign(stub.KindConsensus, id, 1, content)
	v.snd = &symSender{id: id[0], sig: sig, reg: wd.reg, height: 1, content: content}
	v.snd.b = &protocol.SenderSignatureBuilder{MemberId: primitives.MemberId(id), Signature: sig}
	v.b = &protocol.ViewChangeMessageContentBuilder{SignedHeader: hb, Sender: v.snd.b}
	return v
}

// C07_NewView: a node that timed out to view 1 (prefix 3: no lock, prefix 4: locked) or is still in
// view 0 (prefix 0) receives one NEW_VIEW in which every field of the header, of the embedded
// proposal and of each of the `votes` confirmations is symbolic.
func C07_NewView() {
	p := env.Param("prefix")
	votes := env.Param("votes")
	mask := env.Param("proofmask")
	prepares := env.Param("prepares")
	me := env.Param("me") // -1: symbolic choice of the node index
	if me < 0 {
		me = env.Choice("me", 4)
	}
	wd := newWorld(me, paramWeights())
	wd.prefix(p)
	n, ref := wd.n, wd.ref
	cur := n.m.state.HeightView()
	H, V := cur.Height(), cur.View()

	nvInstance := primitives.InstanceId(env.NondetU64("nv_instance"))
	nvHeight := primitives.BlockHeight(env.NondetU64("nv_height"))
	nvView := primitives.View(env.NondetU64("nv_view"))
	var vs []*symVote
	var vbs []*protocol.ViewChangeMessageContentBuilder
	prepares2 := env.Param("prepares2") // PREPARE senders in the proofs of the votes after the first proof-carrying one (-1: same)
	// genuine: the first g votes are genuine proof-less votes for (this instance, this height, the NEW_VIEW's view) of the
	// heaviest other members (so that, with unequal weights, a prefix of the vote list already reaches the quorum)
	genuine := env.ParamOr("genuine", 0)
	first := true
	for i := 0; i < votes; i++ {
		if i < genuine {
			vs = append(vs, genuineSymVote(wd, []int{3, 2, 1, 0}[i+btoi(me >= 3-i)], nvView))
			vbs = append(vbs, vs[i].b)
			continue
		}
		k := prepares
		if mask&(1<<uint(i)) != 0 {
			if !first && prepares2 >= 0 {
				k = prepares2
			}
			first = false
		}
		v := newSymVote(wd.reg, "v", mask&(1<<uint(i)) != 0, k)
		vs = append(vs, v)
		vbs = append(vbs, v.b)
	}
	nh := &protocol.NewViewHeaderBuilder{MessageType: protocol.MessageType(env.NondetU16("nv_type")), InstanceId: nvInstance, BlockHeight: nvHeight, View: nvView, ViewChangeConfirmations: vbs}
	nvSnd := newSymSender(wd.reg, "nv_s", uint64(nvHeight), nh.Build().Raw())
	pp := newSymRef("pp")
	ppSnd := newSymSender(wd.reg, "pp_s", uint64(pp.height), pp.raw)
	content := (&protocol.NewViewMessageContentBuilder{SignedHeader: nh, Sender: nvSnd.b, Message: &protocol.PreprepareContentBuilder{SignedHeader: pp.b, Sender: ppSnd.b}}).Build()
	var blk *stub.Block
	var iblk interfaces.Block
	if env.NondetBool("with_block") {
		blk = symBlock("blk")
		iblk = blk
	}
	raw := interfaces.NewNewViewMessage(content, iblk).ToConsensusRawMessage()

	s0 := n.snap()
	nval := len(n.bu.Validations)
	pn := env.Catch(func() { n.deliver(raw) })
	env.Assert("C07.no_panic", pn == 0)
	if pn != 0 {
		return
	}
	if !n.influenced(s0) {
		env.Reach("C07.rejected")
		return
	}
	env.Reach("C07.accepted")
	// common to both clauses (block certified by a proof / consumer-validated fresh block): the adopted proposal's
	// block satisfies the hash the embedded PREPREPARE signs (an empty hash is satisfied by no block)
	env.Assert("C07.proposal.block_matches_hash", blk != nil && stub.Commits(blk, pp.b.BlockHash))
	after := n.m.state.HeightView()
	env.Assert("C07.nv.sig", nvSnd.isValid())
	env.Assert("C07.nv.leader", nvSnd.id == ref.leader(nvView))
	env.Assert("C07.nv.instance", nvInstance == vInstance)
	env.Assert("C07.nv.height", nvHeight == H)
	env.Assert("C07.nv.view_adopted", env.And(after.View() == nvView, nvView >= V))
	env.Assert("C07.nv.pp_fields", env.And(pp.view == nvView, pp.height == nvHeight))
	env.Assert("C07.nv.pp_instance", pp.instance == vInstance)
	env.Assert("C07.nv.pp_sig", env.And(ppSnd.isValid(), ppSnd.id == ref.leader(nvView)))
	env.Assert("C07.nv.has_block", blk != nil)

	// votes: a set for (instance, height, view) from distinct committee members of quorum weight, each validly signed
	good := make([]bool, votes)
	ids := make([]byte, votes)
	for i, v := range vs {
		good[i] = env.And(v.instance == vInstance, env.And(v.height == H, env.And(v.view == nvView, env.And(v.snd.isValid(), ref.member(v.snd.id)))))
		good[i] = env.And(good[i], v.typ == protocol.LEAN_HELIX_VIEW_CHANGE) // a view-change vote, not another signed header of the same layout
		ids[i] = v.snd.id
	}
	env.Assert("C07.votes.quorum", ref.weight(ids, good) >= ref.q())

	// lock: the highest valid prepared proof among the good votes decides the proposal
	anyProof := false
	best := primitives.View(0)
	for i, v := range vs {
		if v.proof == nil {
			continue
		}
		okp := env.And(good[i], ref.proofOK(v.proof, H, nvView))
		better := env.And(okp, env.Or(!anyProof, v.proof.pp.view > best))
		best = primitives.View(env.IteU64(better, uint64(v.proof.pp.view), uint64(best)))
		anyProof = env.Or(anyProof, okp)
	}
	matchesBest := false
	for i, v := range vs {
		if v.proof == nil {
			continue
		}
		okp := env.And(good[i], ref.proofOK(v.proof, H, nvView))
		hit := env.And(okp, env.And(v.proof.pp.view == best, env.And(v.proof.pp.hash == pp.hash, blk != nil)))
		if blk != nil {
			hit = env.And(hit, blk.Tag == v.proof.pp.hash)
		}
		matchesBest = env.Or(matchesBest, hit)
	}
	env.Assert("C07.lock.proposal_is_highest_proven", env.Implies(anyProof, matchesBest))
	// fresh proposal: approved by the consumer during this step
	validated := false
	for _, c := range n.bu.Validations[nval:] {
		validated = env.Or(validated, env.And(c.OK, env.And(c.Block == blk, env.And(len(c.Hash) == 1, c.Hash[0] == pp.hash))))
	}
	env.Assert("C07.fresh.validated", env.Implies(env.Not(anyProof), validated))
	if anyProof {
		env.Reach("C07.accepted_locked")
	} else {
		env.Reach("C07.accepted_fresh")
	}
}

// C07_BarePreprepare: a stand-alone PREPREPARE for a view above 0 must not make the node prepare.
func C07_BarePreprepare() {
	me := env.Choice("me", 4)
	wd := newWorld(me, paramWeights())
	wd.prefix(env.Param("prefix"))
	n := wd.n
	hdr := newSymRef("m")
	snd := newSymSender(wd.reg, "s", uint64(hdr.height), hdr.raw)
	c := (&protocol.PreprepareContentBuilder{SignedHeader: hdr.b, Sender: snd.b}).Build()
	raw := interfaces.NewPreprepareMessage(c, symBlock("blk")).ToConsensusRawMessage()
	s0 := n.snap()
	n.deliver(raw)
	if !n.influenced(s0) {
		return
	}
	env.Reach("C07.pp.influence")
	env.Assert("C07.via_new_view", hdr.view == 0)
}

// C07_FutureNewView: the second entry into the term, the future cache. While the node is at height 1 it receives
// a NEW_VIEW that is genuine in every respect (signed by the leader of view 1, three genuine proof-less votes,
// acceptable fresh block) except that its height h is a symbolic later height and ALL its parts carry a symbolic
// instance id (traffic of another instance run by the same members and keys). The node is then synced to h. If the
// message has any influence there, it must be a NEW_VIEW for exactly this instance.
func C07_FutureNewView() {
	me := []int{0, 2, 3}[env.Choice("me", 3)]
	wd := newWorld(me, paramWeights())
	n := wd.n
	inst := primitives.InstanceId(env.NondetU64("instance"))
	h := primitives.BlockHeight(env.NondetU64("height"))
	env.Assume(h >= 2 && h < 1<<62)
	foreign := newVNet(wd.reg, wd.net.committee, inst, nil)
	blk := &stub.Block{H: h, Tag: 0x23, ProposalOK: true}
	var votes []*interfaces.ViewChangeMessage
	for _, i := range othersOf(me) {
		votes = append(votes, foreign.vcm(i, h, 1, nil))
	}
	s0 := n.snap()
	n.deliver(foreign.nvm(1, h, 1, votes, blk).ToConsensusRawMessage())
	env.Assert("C07.future.nothing_at_height1", !n.influenced(s0))
	s1 := n.snap()
	wd.sync(&stub.Block{H: h - 1})
	env.Assert("C07.future.synced", n.m.state.Height() == h)
	t := n.snap()
	if t.events != s1.events || t.out != s1.out || n.m.state.View() != 0 {
		env.Reach("C07.future.adopted")
		env.Assert("C07.nv.instance", inst == vInstance)
	} else {
		env.Reach("C07.future.ignored")
	}
}
