package leanhelix

import (
	"github.com/orbs-network/lean-helix-go/services/interfaces"
	"github.com/orbs-network/lean-helix-go/services/randomseed"
	"github.com/orbs-network/lean-helix-go/spec/types/go/primitives"
	"github.com/orbs-network/lean-helix-go/spec/types/go/protocol"
	env "github.com/orbs-network/lean-helix-go/zzverifenv"
	stub "github.com/orbs-network/lean-helix-go/zzverifstub"
)

func init() {
	env.Register("C08_OneMessage", C08_OneMessage)
	env.Register("C08_FutureMessage", C08_FutureMessage)
	env.Register("C08_NotInCommittee", C08_NotInCommittee)
}

// C08_FutureMessage: a symbolic PREPREPARE / PREPARE / COMMIT arrives while the node is at height 1; the node
// is then synced to a symbolic later height (what happens with cached future messages when their term
// starts). Any influence observed while entering that height must satisfy the same predicate, judged
// against the new height.
func C08_FutureMessage() {
	kind := env.Param("kind") // 0 PP, 1 P, 2 C, 3 VC (proof-less)
	me := env.Choice("me", 4)
	wd := newWorld(me, paramWeights())
	n, ref := wd.n, wd.ref
	myId := byte(me + 1)
	hdr := newSymRef("m")
	var snd *symSender
	if kind != 3 {
		snd = newSymSender(wd.reg, "s", uint64(hdr.height), hdr.raw)
	}
	var raw *interfaces.ConsensusRawMessage
	shareOK := func() bool { return true }
	switch kind {
	case 3:
		vh := &protocol.ViewChangeHeaderBuilder{MessageType: hdr.typ, InstanceId: hdr.instance, BlockHeight: hdr.height, View: hdr.view}
		snd = newSymSender(wd.reg, "s", uint64(hdr.height), vh.Build().Raw())
		c := (&protocol.ViewChangeMessageContentBuilder{SignedHeader: vh, Sender: snd.b}).Build()
		raw = interfaces.NewViewChangeMessage(c, nil).ToConsensusRawMessage()
	case 0:
		c := (&protocol.PreprepareContentBuilder{SignedHeader: hdr.b, Sender: snd.b}).Build()
		raw = interfaces.NewPreprepareMessage(c, symBlock("blk")).ToConsensusRawMessage()
	case 1:
		c := (&protocol.PrepareContentBuilder{SignedHeader: hdr.b, Sender: snd.b}).Build()
		raw = interfaces.NewPrepareMessage(c).ToConsensusRawMessage()
	case 2:
		// the seed of the later term is derived from the (empty) proof handed over by the sync
		seedBytes := randomseed.RandomSeedToBytes(wd.net.seed)
		share, _ := symSig(wd.reg, stub.KindSeed, []byte{snd.id}, uint64(hdr.height), seedBytes, "share")
		shareOK = func() bool { return wd.reg.Valid(stub.KindSeed, []byte{snd.id}, uint64(hdr.height), seedBytes, share) }
		c := (&protocol.CommitContentBuilder{SignedHeader: hdr.b, Sender: snd.b, Share: share}).Build()
		raw = interfaces.NewCommitMessage(c).ToConsensusRawMessage()
	}
	s0 := n.snap()
	n.deliver(raw)
	if n.influenced(s0) {
		return // current-height behaviour is C08_OneMessage's subject
	}
	// sync to a later height: the term of that height starts and drains the future cache
	b := env.NondetU64("sync_h")
	env.Assume(b >= 1 && b < 1<<62)
	s1 := n.snap()
	wd.sync(&stub.Block{H: primitives.BlockHeight(b)})
	env.Assert("C08.future.synced", uint64(n.m.state.Height()) == b+1)
	t := n.snap()
	infl := t.events != s1.events || t.out != s1.out || t.commits != s1.commits
	if !infl {
		env.Reach("C08.future.no_influence")
		return
	}
	env.Reach("C08.future.influence")
	H := primitives.BlockHeight(b + 1)
	K := []string{"PP", "P", "C", "VC"}[kind]
	env.Assert("C08."+K+".sig", snd.isValid())
	env.Assert("C08."+K+".member", ref.member(snd.id))
	env.Assert("C08."+K+".not_own", snd.id != myId)
	env.Assert("C08."+K+".instance", hdr.instance == vInstance)
	env.Assert("C08."+K+".height", hdr.height == H)
	// the signed header is the header of a message of this kind (a COMMIT header inside a PREPARE envelope is not a PREPARE)
	env.Assert("C08."+K+".type", hdr.typ == []protocol.MessageType{protocol.LEAN_HELIX_PREPREPARE, protocol.LEAN_HELIX_PREPARE, protocol.LEAN_HELIX_COMMIT, protocol.LEAN_HELIX_VIEW_CHANGE}[kind])
	switch kind {
	case 0:
		env.Assert("C08.PP.leader", snd.id == ref.leader(hdr.view))
	case 1:
		env.Assert("C08.P.not_leader", snd.id != ref.leader(hdr.view))
	case 2:
		env.Assert("C08.C.share", shareOK())
	case 3:
		env.Assert("C08.VC.to_me", ref.leader(hdr.view) == myId)
	}
}

type vWorld struct {
	reg  *stub.Registry
	net  *vNet
	n    *vNode
	ref  *refCommittee
	me   int
	blk  *stub.Block // the honest proposal of view 0
	H    primitives.BlockHeight
}

const vInstance = primitives.InstanceId(7)

// newWorld: node `me` of a 4-member committee with the given weights, started at height 1.
func newWorld(me int, w []uint64) *vWorld {
	wd := &vWorld{reg: stub.NewRegistry(), me: me, H: 1}
	committee := vCommittee(len(w), w)
	wd.net = newVNet(wd.reg, committee, vInstance, nil)
	wd.n = newVNode(wd.reg, committee, me, vInstance)
	wd.n.commitErr = true // the commit callback fails: the node stays in this term (no next round)
	wd.ref = newRefCommittee(w)
	wd.n.start(nil, nil, true)
	return wd
}

// prefix states (reachable by construction: produced by the real handlers on honest traffic)
//   0 fresh; 1 accepted the view-0 proposal; 2 prepared in view 0; 3 timed out to view 1 without lock;
//   4 timed out to view 1 holding a lock; 5 committed in view 0;
//   6 accepted the view-0 proposal and holds two genuine COMMITs for it (no quorum), not prepared
//   7 accepted the view-0 proposal (not prepared), then timed out to view 1
//   8 (me >= 1) timed out up to the first view it leads and was elected there by genuine proof-less votes of two
//     other members: it has sent its NEW_VIEW with a fresh block; the third member's vote is still outstanding
func (wd *vWorld) prefix(p int) {
	n, net := wd.n, wd.net
	wd.blk = &stub.Block{H: 1, Tag: 0x21, ProposalOK: true}
	hash := stub.HashOf(wd.blk)
	others := []int{}
	for i := 1; i < 4; i++ {
		if i != wd.me {
			others = append(others, i)
		}
	}
	if p == 1 || p == 2 || p == 4 || p == 5 || p == 7 {
		if wd.me != 0 {
			n.deliver(net.ppm(0, 1, 0, wd.blk).ToConsensusRawMessage())
		}
	}
	if p == 2 || p == 4 || p == 5 {
		for _, i := range others {
			n.deliver(net.pm(i, 1, 0, hash).ToConsensusRawMessage())
		}
	}
	if p == 5 {
		if wd.me != 0 {
			n.deliver(net.cm(0, 1, 0, hash).ToConsensusRawMessage())
		}
		for _, i := range others {
			n.deliver(net.cm(i, 1, 0, hash).ToConsensusRawMessage())
		}
	}
	if p == 3 || p == 4 || p == 7 {
		n.timeout()
	}
	if p == 8 {
		for t := 0; t < wd.me; t++ {
			n.timeout()
		}
		for k, i := range othersOf(wd.me) {
			if k < 2 {
				n.deliver(net.vcm(i, 1, primitives.View(wd.me), nil).ToConsensusRawMessage())
			}
		}
	}
	if p == 6 {
		if wd.me != 0 {
			n.deliver(net.ppm(0, 1, 0, wd.blk).ToConsensusRawMessage())
		}
		for k, i := range others {
			if k < 2 {
				n.deliver(net.cm(i, 1, 0, hash).ToConsensusRawMessage())
			}
		}
	}
}

// C08_OneMessage: one fully symbolic message of the given kind delivered (through the real filters) to a
// node in the given prefix state; influence must imply the reference predicate.
func C08_OneMessage() {
	p := env.Param("prefix")
	kind := env.Param("kind") // 0 PP, 1 P, 2 C, 3 VC, 4 NV
	me := env.Choice("me", 4)
	if p == 5 && me == 0 {
		// the leader commits as well; keep it
	}
	wd := newWorld(me, paramWeights())
	wd.prefix(p)
	n, ref := wd.n, wd.ref
	cur := n.m.state.HeightView()
	H, V := cur.Height(), cur.View()
	myId := byte(me + 1)

	hdr := newSymRef("m")
	var raw *interfaces.ConsensusRawMessage
	var snd *symSender
	var prf *symProof
	shareOK := false
	voteHasProof := false
	switch kind {
	case 0, 1, 2:
		snd = newSymSender(wd.reg, "s", uint64(hdr.height), hdr.raw)
		switch kind {
		case 0:
			c := (&protocol.PreprepareContentBuilder{SignedHeader: hdr.b, Sender: snd.b}).Build()
			var blk interfaces.Block
			if env.NondetBool("with_block") {
				blk = symBlock("blk")
			}
			raw = interfaces.NewPreprepareMessage(c, blk).ToConsensusRawMessage()
		case 1:
			c := (&protocol.PrepareContentBuilder{SignedHeader: hdr.b, Sender: snd.b}).Build()
			raw = interfaces.NewPrepareMessage(c).ToConsensusRawMessage()
		case 2:
			seedBytes := randomseed.RandomSeedToBytes(wd.net.seed)
			share, ok := symSig(wd.reg, stub.KindSeed, []byte{snd.id}, uint64(hdr.height), seedBytes, "share")
			shareOK = ok
			c := (&protocol.CommitContentBuilder{SignedHeader: hdr.b, Sender: snd.b, Share: share}).Build()
			raw = interfaces.NewCommitMessage(c).ToConsensusRawMessage()
		}
	case 3:
		k := env.Param("prepares")
		vh := &protocol.ViewChangeHeaderBuilder{MessageType: hdr.typ, InstanceId: hdr.instance, BlockHeight: hdr.height, View: hdr.view}
		if k >= 0 || k == -2 {
			prf = newSymProof(wd.reg, "pr", k)
			vh.PreparedProof = prf.b
			voteHasProof = true
		}
		vraw := vh.Build().Raw()
		snd = newSymSender(wd.reg, "s", uint64(hdr.height), vraw)
		c := (&protocol.ViewChangeMessageContentBuilder{SignedHeader: vh, Sender: snd.b}).Build()
		var blk interfaces.Block
		if env.NondetBool("with_block") {
			blk = symBlock("blk")
		}
		raw = interfaces.NewViewChangeMessage(c, blk).ToConsensusRawMessage()
	}

	s0 := n.snap()
	pn := env.Catch(func() { n.deliver(raw) })
	env.Assert("C08.no_panic", pn == 0)
	if pn != 0 {
		return
	}
	infl := n.influenced(s0)
	if !infl {
		env.Reach("C08.no_influence")
		return
	}
	env.Reach("C08.influence")
	K := []string{"PP", "P", "C", "VC"}[kind]
	env.Assert("C08."+K+".sig", snd.isValid())
	env.Assert("C08."+K+".member", ref.member(snd.id))
	env.Assert("C08."+K+".not_own", snd.id != myId)
	env.Assert("C08."+K+".instance", hdr.instance == vInstance)
	env.Assert("C08."+K+".height", hdr.height == H)
	// the signed header is the header of a message of this kind (a COMMIT header inside a PREPARE envelope is not a PREPARE)
	env.Assert("C08."+K+".type", hdr.typ == []protocol.MessageType{protocol.LEAN_HELIX_PREPREPARE, protocol.LEAN_HELIX_PREPARE, protocol.LEAN_HELIX_COMMIT, protocol.LEAN_HELIX_VIEW_CHANGE}[kind])
	switch kind {
	case 0:
		env.Assert("C08.PP.leader", snd.id == ref.leader(hdr.view))
	case 1:
		env.Assert("C08.P.not_leader", snd.id != ref.leader(hdr.view))
		env.Assert("C08.P.not_stale", hdr.view >= V)
	case 2:
		env.Assert("C08.C.share", shareOK)
	case 3:
		env.Assert("C08.VC.to_me", ref.leader(hdr.view) == myId)
		env.Assert("C08.VC.not_stale", hdr.view >= V)
		if voteHasProof {
			env.Assert("C08.VC.proof", ref.proofOK(prf, H, hdr.view))
		}
	}
}

// C08_NotInCommittee: the node is not a member of this height's committee (it follows the chain by sync only).
// One fully symbolic PREPREPARE / PREPARE / COMMIT / proof-less VIEW_CHANGE, for the current or a future height,
// must not influence it in any way and must not panic out of the filter chain; afterwards a sync still takes effect
// and drains the future cache without a panic.
func C08_NotInCommittee() {
	kind := env.Param("kind")
	w := paramWeights()
	committee5 := vCommittee(5, append(append([]uint64{}, w...), 1))
	wd := &vWorld{reg: stub.NewRegistry(), me: 4, H: 1}
	wd.net = newVNet(wd.reg, committee5[:4], vInstance, nil)
	wd.ref = newRefCommittee(w)
	n := newVNode(wd.reg, committee5, 4, vInstance)
	n.mem.Committee = committee5[:4]
	n.commitErr = true
	wd.n = n
	n.start(nil, nil, true)
	hdr := newSymRef("m")
	var raw *interfaces.ConsensusRawMessage
	switch kind {
	case 0:
		snd := newSymSender(wd.reg, "s", uint64(hdr.height), hdr.raw)
		c := (&protocol.PreprepareContentBuilder{SignedHeader: hdr.b, Sender: snd.b}).Build()
		raw = interfaces.NewPreprepareMessage(c, symBlock("blk")).ToConsensusRawMessage()
	case 1:
		raw = symPrepareRaw(wd, "m")
	case 2:
		raw, _, _, _ = symCommit(wd, "m")
	case 3:
		raw = symViewChangeRaw(wd, "m", -1)
	}
	s0 := n.snap()
	pn := env.Catch(func() { n.m.worker.handleRawMessage(raw) }) // the worker's real entry point (with its recovery)
	env.Assert("C08.outsider_node.no_panic", pn == 0)
	env.Assert("C08.outsider_node.no_influence", !n.influenced(s0))
	b := env.NondetU64("sync_h")
	env.Assume(b >= 1 && b < 1<<62)
	s1 := n.snap()
	pn2 := env.Catch(func() { wd.sync(&stub.Block{H: primitives.BlockHeight(b)}) })
	env.Assert("C08.outsider_node.sync_no_panic", pn2 == 0)
	env.Assert("C08.outsider_node.synced", uint64(n.m.state.Height()) == b+1)
	t := n.snap()
	env.Assert("C08.outsider_node.no_influence", t.events == s1.events && t.out == s1.out && t.commits == s1.commits)
	env.Reach("C08.outsider_node.done")
}
