package leanhelix

import (
	"github.com/orbs-network/lean-helix-go/services/interfaces"
	"github.com/orbs-network/lean-helix-go/services/proofsvalidator"
	"github.com/orbs-network/lean-helix-go/spec/types/go/primitives"
	"github.com/orbs-network/lean-helix-go/spec/types/go/protocol"
	env "github.com/orbs-network/lean-helix-go/zzverifenv"
	stub "github.com/orbs-network/lean-helix-go/zzverifstub"
)

func init() {
	env.Register("C09_Vote", C09_Vote)
	env.Register("C09_Leader", C09_Leader)
	env.Register("C09_LeaderViews", C09_LeaderViews)
	env.Register("C07_HighestProof", C07_HighestProof)
}

func c09Weights() []uint64 {
	switch env.Param("weights") {
	case 1:
		return []uint64{3, 1, 1, 1}
	case 2:
		return []uint64{1, 2, 3, 4}
	case 3:
		return []uint64{2, 2, 1, 1}
	}
	return equalWeights(4)
}

func lastVote(n *vNode, from int) *interfaces.ViewChangeMessage {
	for i := len(n.comm.Out) - 1; i >= from; i-- {
		if m, ok := n.comm.Out[i].Msg.(*interfaces.ViewChangeMessage); ok {
			return m
		}
	}
	return nil
}

// C09_Vote: a node that accepted the view-0 proposal receives PREPAREs from a symbolic subset of the
// other members (so it may or may not hold a prepared certificate), optionally moves on to view 1 by a
// valid NEW_VIEW re-proposing the block and prepares there too, then times out. The VIEW_CHANGE it emits
// is checked against the reference and against the real ValidatePreparedProof of another member.
func C09_Vote() {
	me := env.Param("me") // 1..3 (not the view-0 leader)
	w := c09Weights()
	wd := newWorld(me, w)
	n, net, ref := wd.n, wd.net, wd.ref
	wd.blk = &stub.Block{H: 1, Tag: 0x21, ProposalOK: true}
	hash := stub.HashOf(wd.blk)
	n.deliver(net.ppm(0, 1, 0, wd.blk).ToConsensusRawMessage())
	// ghost: whose PREPAREs the node holds per view (its own PREPARE and the leader's proposal count too)
	ids0, use0 := []byte{1, byte(me + 1)}, []bool{true, true}
	ids1, use1 := []byte{2, byte(me + 1)}, []bool{true, true}
	padded := env.ParamOr("padded_prepare", 0) == 1
	for i := 1; i < 4; i++ {
		if i != me {
			from := env.NondetBool("prepare_from")
			ids0, use0 = append(ids0, byte(i+1)), append(use0, from)
			if from {
				pm := net.pm(i, 1, 0, hash)
				if padded && env.NondetBool("this_one_is_padded") {
					// the member's genuine signature (over the canonical encoding), but the header bytes on the wire carry
					// extra trailing bytes: accepted, and must not resurface verbatim in the node's proof
					raw := append(append([]byte{}, pm.Content().SignedHeader().Raw()...), env.NondetBytes("pad", 4)...)
					c := (&protocol.PrepareContentBuilder{SignedHeader: protocol.BlockRefBuilderFromRaw(raw), Sender: &protocol.SenderSignatureBuilder{MemberId: pm.Content().Sender().MemberId(), Signature: pm.Content().Sender().Signature()}}).Build()
					pm = interfaces.NewPrepareMessage(c)
				}
				n.deliver(pm.ToConsensusRawMessage())
			}
		}
	}
	refPrepared0 := ref.weight(ids0, use0) >= ref.q()
	refPrepared1 := false
	prepared0 := false
	if v, ok := n.m.worker.leanHelixTerm != nil, true; v && ok {
		_, prepared0 = wd.termPrepared()
	}
	second := env.Param("second_view") == 1
	prepared1 := false
	if second {
		// everybody times out; leader(1) = member 1 sends a NEW_VIEW locked on the view-0 block (if me != 1)
		n.timeout()
		if me != 1 {
			var votes []*interfaces.ViewChangeMessage
			for _, i := range []int{0, 1, 2, 3} {
				if i == me || len(votes) == 3 {
					continue
				}
				votes = append(votes, net.vcm(i, 1, 1, net.prepared(1, 0, wd.blk, othersOf(0, i))))
			}
			n.deliver(net.nvm(1, 1, 1, votes, wd.blk).ToConsensusRawMessage())
			// adopted: the NEW_VIEW's proposal was accepted for storing (with some weight vectors the three votes it
			// carries do not reach the quorum and it is rightly ignored; the node is in view 1 anyway, by its own timeout)
			adopted := false
			for _, e := range n.st.Events {
				if e.Kind == "PP" && e.Msg.View() == 1 {
					adopted = true
				}
			}
			for i := 0; i < 4; i++ {
				if i != me && i != 1 {
					from := env.NondetBool("prepare1_from")
					ids1, use1 = append(ids1, byte(i+1)), append(use1, from)
					if from {
						n.deliver(net.pm(i, 1, 1, hash).ToConsensusRawMessage())
					}
				}
			}
			refPrepared1 = adopted && ref.weight(ids1, use1) >= ref.q()
			pv, pok := wd.termPrepared()
			prepared1 = pok && pv == 1
		}
	}
	if k := env.ParamOr("flood", 0); k > 0 {
		// one (Byzantine) member sends validly signed PREPAREs for k pairwise different later views it does not lead
		fl := []int{1, 2, 3}[env.Choice("flooder", 3)]
		if fl != me {
			sent := 0
			for v := 2; sent < k; v++ {
				if v%4 == fl {
					continue
				}
				n.deliver(net.pm(fl, 1, primitives.View(v), hash).ToConsensusRawMessage())
				sent++
			}
		}
	}
	for x := 0; x < env.ParamOr("extra_timeouts", 0); x++ {
		n.timeout() // further election timeouts without any traffic (a full cycle of the committee and more)
	}
	from := len(n.comm.Out)
	nreg := len(n.el.Regs)
	n.timeout()
	cur := n.m.state.HeightView()
	var vote *interfaces.ViewChangeMessage
	if int(uint64(cur.View())%4) == me {
		// the node is the next leader: its own vote is stored, not sent
		vs, _ := n.st.GetViewChangeMessages(1, cur.View())
		for _, v := range vs {
			if v.SenderMemberId().Equal(n.me) {
				vote = v
			}
		}
	} else {
		vote = lastVote(n, from)
	}
	env.Assert("C09.vc.emitted", vote != nil && len(n.el.Regs) > nreg)
	if vote == nil {
		return
	}
	hdr := vote.Content().SignedHeader()
	env.Assert("C09.vc.view", hdr.View() == cur.View())
	proof := hdr.PreparedProof()
	hasProof := proof != nil && len(proof.Raw()) > 0
	// the node's highest prepared view, judged from the outside: it sends COMMIT(v) exactly when it becomes
	// prepared in v (no COMMITs are delivered in this harness), so the reference does not depend on the term's
	// own bookkeeping of its lock
	pv, isPrepared := primitives.View(0), false
	for _, s := range n.comm.Out {
		if cm, ok := s.Msg.(*interfaces.CommitMessage); ok {
			if !isPrepared || cm.View() > pv {
				pv = cm.View()
			}
			isPrepared = true
		}
	}
	tv, tok := wd.termPrepared()
	env.Assert("C09.vc.lock_bookkeeping", tok == isPrepared && (!tok || tv == pv))
	// ... and from the messages it was given: a proposal plus PREPAREs of quorum weight (its own included)
	env.Assert("C09.vc.prepared_iff_certificate_held", isPrepared == env.Or(refPrepared0, refPrepared1))
	env.Assert("C09.vc.prepared_view_is_highest_certificate", env.Implies(refPrepared1, pv == 1))
	env.Assert("C09.vc.has_proof_iff_prepared", hasProof == isPrepared)
	if !isPrepared {
		env.Assert("C09.vc.no_block_when_unprepared", vote.Block() == nil)
		env.Reach("C09.vote_unprepared")
		return
	}
	if !hasProof {
		return
	}
	env.Assert("C09.vc.proof_view_is_latest_prepared", proof.PreprepareBlockRef().View() == pv)
	if prepared1 {
		env.Assert("C09.vc.proof_view_is_highest", proof.PreprepareBlockRef().View() == 1)
		env.Reach("C09.vote_locked_view1")
	} else if prepared0 {
		env.Reach("C09.vote_locked_view0")
	}
	env.Assert("C09.vc.block", stub.Commits(vote.Block(), proof.PreprepareBlockRef().BlockHash()))
	env.Assert("C09.vc.block_is_the_prepared_one", vote.Block() == interfaces.Block(wd.blk))
	// the real validator of another member accepts the proof
	other := (me + 1) % 4
	okv := proofsvalidator.ValidatePreparedProof(1, hdr.View(), proof, net.kms[other], net.committee, func(v primitives.View) primitives.MemberId {
		return net.committee[int(uint64(v)%4)].Id
	})
	env.Assert("C09.vc.proof_valid_for_peer", okv)
	// reference predicate on the parsed proof
	ids := []byte{proof.PreprepareSender().MemberId()[0]}
	sigsOK := wd.reg.Valid(stub.KindConsensus, proof.PreprepareSender().MemberId(), 1, proof.PreprepareBlockRef().Raw(), proof.PreprepareSender().Signature())
	it := proof.PrepareSendersIterator()
	for it.HasNext() {
		s := it.NextPrepareSenders()
		ids = append(ids, s.MemberId()[0])
		sigsOK = env.And(sigsOK, wd.reg.Valid(stub.KindConsensus, s.MemberId(), 1, proof.PrepareBlockRef().Raw(), s.Signature()))
	}
	env.Assert("C09.vc.proof_reference", env.And(sigsOK, ref.weight(ids, allTrue(len(ids))) >= ref.q()))
}

func othersOf(excl ...int) []int {
	var out []int
	for i := 0; i < 4; i++ {
		skip := false
		for _, e := range excl {
			if e == i {
				skip = true
			}
		}
		if !skip {
			out = append(out, i)
		}
	}
	return out
}

// termPrepared reads the node's own lock through the term (in-package access).
func (wd *vWorld) termPrepared() (primitives.View, bool) {
	t := wd.n.m.worker.leanHelixTerm
	if t == nil {
		return 0, false
	}
	return termLock(t)
}

// C09_Leader: node 2 times out twice and is the leader of view 2. The other members send votes of
// symbolically chosen shapes (none / no proof / proof for view 0 with block A / proof for view 1 with
// block B / the view-1 proof without its block) in a symbolically chosen order.
func C09_Leader() {
	const me = 2
	wd := newWorld(me, c09Weights())
	n, net := wd.n, wd.net
	blkA := &stub.Block{H: 1, Tag: 0xA1, ProposalOK: true}
	blkB := &stub.Block{H: 1, Tag: 0xB3, ProposalOK: true}
	n.timeout()
	n.timeout()
	env.Assert("C09.setup_view2", n.m.state.View() == 2)
	voters := []int{0, 1, 3}
	// symbolic arrival order: rotate / swap
	switch env.Choice("order", 3) {
	case 1:
		voters = []int{3, 0, 1}
	case 2:
		voters = []int{1, 3, 0}
	}
	type sent struct {
		idx       int
		proofView int // -1 none
		withBlock bool
	}
	var delivered []sent
	var stored []*interfaces.ViewChangeMessage
	nvSeen := false
	from := len(n.comm.Out)
	nreq := len(n.bu.Requests)
	for _, i := range voters {
		shape := env.Choice("shape", 5)
		var vcm *interfaces.ViewChangeMessage
		switch shape {
		case 0:
			continue
		case 1:
			vcm = net.vcm(i, 1, 2, nil)
			delivered = append(delivered, sent{i, -1, false})
		case 2:
			vcm = net.vcm(i, 1, 2, net.prepared(1, 0, blkA, othersOf(0, 2)))
			delivered = append(delivered, sent{i, 0, true})
		case 3:
			vcm = net.vcm(i, 1, 2, net.prepared(1, 1, blkB, othersOf(1, 2)))
			delivered = append(delivered, sent{i, 1, true})
		case 4:
			full := net.vcm(i, 1, 2, net.prepared(1, 1, blkB, othersOf(1, 2)))
			vcm = interfaces.NewViewChangeMessage(full.Content(), nil) // Byzantine voter withholds the block
			delivered = append(delivered, sent{i, 1, false})
		}
		n.deliver(vcm.ToConsensusRawMessage())
		if !nvSeen && hasNewView(n, from) {
			// the votes the leader had counted when it emitted the NEW_VIEW
			nvSeen = true
			stored = votesAcceptedForStoring(n, 2)
		}
	}
	c09CheckNewView(wd, from, nreq, stored, 2)
}

// c09CheckNewView: the oracle of the leader clause, applied to whatever NEW_VIEW node wd.n sent since `from`:
// the embedded votes are exactly the votes stored when it was emitted, they reach the quorum, the proposal is the
// block of the highest-view proof among them, a fresh block is requested iff none carries a proof.
func c09CheckNewView(wd *vWorld, from, nreq int, stored []*interfaces.ViewChangeMessage, view primitives.View) {
	n := wd.n
	// the NEW_VIEW, if any
	var nv *interfaces.NewViewMessage
	for _, s := range n.comm.Out[from:] {
		if m, ok := s.Msg.(*interfaces.NewViewMessage); ok {
			env.Assert("C09.nv.at_most_one", nv == nil)
			nv = m
		}
	}
	if nv == nil {
		env.Reach("C09.no_new_view")
		return
	}
	env.Reach("C09.new_view_sent")
	hdr := nv.Content().SignedHeader()
	env.Assert("C09.nv.header", env.And(hdr.View() == view, hdr.BlockHeight() == 1))
	// embedded votes: exactly the stored ones (own vote + accepted votes received before the quorum completed)
	it := hdr.ViewChangeConfirmationsIterator()
	cnt := 0
	best := -1
	var bestHash primitives.BlockHash
	anyProof := false
	weightIds := []byte{}
	for it.HasNext() {
		c := it.NextViewChangeConfirmations()
		cnt++
		found := false
		for _, sv := range stored {
			if sv.SenderMemberId().Equal(c.Sender().MemberId()) {
				found = true
				env.Assert("C09.nv.vote_bytes_as_stored", env.EqBytes(sv.Content().SignedHeader().Raw(), c.SignedHeader().Raw()))
			}
		}
		env.Assert("C09.nv.votes_are_stored_ones", found)
		weightIds = append(weightIds, c.Sender().MemberId()[0])
		p := c.SignedHeader().PreparedProof()
		if p != nil && len(p.Raw()) > 0 {
			anyProof = true
			pv := int(p.PreprepareBlockRef().View())
			if pv > best {
				best = pv
				bestHash = p.PreprepareBlockRef().BlockHash()
			}
		}
	}
	env.Assert("C09.nv.vote_count", cnt == len(stored))
	env.Assert("C09.nv.votes_quorum", wd.ref.weight(weightIds, allTrue(len(weightIds))) >= wd.ref.q())
	ppHash := nv.Content().Message().SignedHeader().BlockHash()
	if anyProof {
		env.Assert("C09.nv.block_of_highest_proof", env.And(env.EqBytes(ppHash, bestHash), stub.Commits(nv.Block(), bestHash)))
		env.Assert("C09.nv.no_fresh_request_when_locked", len(n.bu.Requests) == nreq)
		env.Reach("C09.nv.locked")
	} else {
		env.Assert("C09.nv.fresh_requested", len(n.bu.Requests) == nreq+1)
		if len(n.bu.Requests) == nreq+1 {
			env.Assert("C09.nv.fresh_block_proposed", env.And(nv.Block() == interfaces.Block(n.bu.Requests[nreq].Block), env.EqBytes(ppHash, n.bu.Requests[nreq].Hash)))
		}
		env.Reach("C09.nv.fresh")
	}
	_ = protocol.LEAN_HELIX_NEW_VIEW
}

// votesAcceptedForStoring: the votes for (height 1, view) the node handed to its storage so far (first vote per
// sender), taken from the recorder in front of the storage rather than from the storage's own getter
func votesAcceptedForStoring(n *vNode, view primitives.View) []*interfaces.ViewChangeMessage {
	var out []*interfaces.ViewChangeMessage
	for _, e := range n.st.Events {
		vc, ok := e.Msg.(*interfaces.ViewChangeMessage)
		if !ok || e.Kind != "VC" || vc.BlockHeight() != 1 || vc.View() != view {
			continue
		}
		dup := false
		for _, o := range out {
			if o.SenderMemberId().Equal(vc.SenderMemberId()) {
				dup = true
			}
		}
		if !dup {
			out = append(out, vc)
		}
	}
	return out
}

func hasNewView(n *vNode, from int) bool {
	for _, s := range n.comm.Out[from:] {
		if _, ok := s.Msg.(*interfaces.NewViewMessage); ok {
			return true
		}
	}
	return false
}

// blockOfView: in these harnesses the block prepared in view p is determined by p (distinct odd tags)
func blockOfView(p int) *stub.Block {
	return &stub.Block{H: 1, Tag: byte(0x21 + 2*p), ProposalOK: true}
}

// C09_LeaderViews: node 2 times out six times and leads view 6. The three other members send genuine votes,
// each carrying a genuine prepared proof for a symbolically chosen earlier view 0..5 (or no proof), in a
// symbolically chosen order: any combination and order of proof views.
func C09_LeaderViews() {
	const me = 2
	wd := newWorld(me, c09Weights())
	n, net := wd.n, wd.net
	for t := 0; t < 6; t++ {
		n.timeout()
	}
	env.Assert("C09.setup_view6", n.m.state.View() == 6)
	voters := []int{0, 1, 3}
	switch env.Choice("order", 3) {
	case 1:
		voters = []int{3, 0, 1}
	case 2:
		voters = []int{1, 3, 0}
	}
	var stored []*interfaces.ViewChangeMessage
	nvSeen := false
	from := len(n.comm.Out)
	nreq := len(n.bu.Requests)
	for _, i := range voters {
		pv := env.Choice("proof_view", 7) // 6: no proof
		var vcm *interfaces.ViewChangeMessage
		if pv == 6 {
			vcm = net.vcm(i, 1, 6, nil)
		} else {
			vcm = net.vcm(i, 1, 6, net.prepared(1, primitives.View(pv), blockOfView(pv), othersOf(pv%4)))
		}
		n.deliver(vcm.ToConsensusRawMessage())
		if !nvSeen && hasNewView(n, from) {
			nvSeen = true
			stored = votesAcceptedForStoring(n, 6)
		}
	}
	c09CheckNewView(wd, from, nreq, stored, 6)
}

// C07_HighestProof (follower side of the same clause): a node that timed out to view 1 receives a NEW_VIEW for
// view 7, genuinely signed by its leader (member 3), with genuine votes of the three other members, each carrying
// a genuine prepared proof for a symbolically chosen view 0..6 (block determined by the view), proposing the block
// of a symbolically chosen vote. It must be adopted iff the proposal is the block of the highest proof view.
func C07_HighestProof() {
	me := env.Param("me") // 0..2
	wd := newWorld(me, paramWeights())
	n, net := wd.n, wd.net
	wd.prefix(3)
	var votes []*interfaces.ViewChangeMessage
	var views []int
	max := -1
	for _, i := range othersOf(me) {
		pv := env.Choice("proof_view", 7)
		views = append(views, pv)
		if pv > max {
			max = pv
		}
		votes = append(votes, net.vcm(i, 1, 7, net.prepared(1, primitives.View(pv), blockOfView(pv), othersOf(pv%4))))
	}
	c := env.Choice("proposed", len(votes))
	s0 := n.snap()
	n.deliver(net.nvm(3, 1, 7, votes, blockOfView(views[c])).ToConsensusRawMessage())
	adopted := n.m.state.View() == 7
	if views[c] == max {
		env.Reach("C07.hp.highest_proposed")
		env.Assert("C11.NV.adopted", adopted)
	} else {
		env.Assert("C07.lock.proposal_is_highest_proven", !n.influenced(s0))
	}
}
