package leanhelix

import (
	"github.com/orbs-network/lean-helix-go/services/leanhelixterm"
	"github.com/orbs-network/lean-helix-go/spec/types/go/primitives"
)

// termLock returns the node's own prepared view via the read-only accessors added by overlay
// to the leanhelixterm and termincommittee packages (harness-only files).
func termLock(t *leanhelixterm.LeanHelixTerm) (primitives.View, bool) {
	return leanhelixterm.VerifPreparedView(t)
}
