package leanhelix

import (
	"github.com/orbs-network/lean-helix-go/services/interfaces"
	"github.com/orbs-network/lean-helix-go/spec/types/go/primitives"
	"github.com/orbs-network/lean-helix-go/spec/types/go/protocol"
	env "github.com/orbs-network/lean-helix-go/zzverifenv"
	stub "github.com/orbs-network/lean-helix-go/zzverifstub"
)

func init() {
	env.Register("C10_Events", C10_Events)
}

type c10Sent struct {
	kind   int // 0 PP (also inside NEW_VIEW), 1 P, 2 C, 3 VC, 4 NV
	view   primitives.View
	height primitives.BlockHeight
	hash   primitives.BlockHash
	atView primitives.View // node's view at send time
	atH    primitives.BlockHeight
}

type c10Log struct {
	wd    *vWorld
	sent  []*c10Sent
	views []primitives.View // node view after each event (for no_old_view)
}

func (l *c10Log) hook(s *stub.Sent) {
	hv := l.wd.n.m.state.HeightView()
	e := &c10Sent{atView: hv.View(), atH: hv.Height()}
	switch m := s.Msg.(type) {
	case *interfaces.PreprepareMessage:
		e.kind, e.view, e.height, e.hash = 0, m.View(), m.BlockHeight(), m.Content().SignedHeader().BlockHash()
	case *interfaces.PrepareMessage:
		e.kind, e.view, e.height, e.hash = 1, m.View(), m.BlockHeight(), m.Content().SignedHeader().BlockHash()
	case *interfaces.CommitMessage:
		e.kind, e.view, e.height, e.hash = 2, m.View(), m.BlockHeight(), m.Content().SignedHeader().BlockHash()
	case *interfaces.ViewChangeMessage:
		e.kind, e.view, e.height = 3, m.View(), m.BlockHeight()
	case *interfaces.NewViewMessage:
		// the proposal carried by a NEW_VIEW is a proposal signed as leader
		pp := m.Content().Message().SignedHeader()
		l.sent = append(l.sent, &c10Sent{kind: 0, view: pp.View(), height: pp.BlockHeight(), hash: pp.BlockHash(), atView: hv.View(), atH: hv.Height()})
		e.kind, e.view, e.height = 4, m.View(), m.BlockHeight()
	}
	l.sent = append(l.sent, e)
}

// check: the outbox invariants of C10 over everything sent so far.
func (l *c10Log) check() {
	wd := l.wd
	n, ref := wd.n, wd.ref
	myId := byte(wd.me + 1)
	lastVC := primitives.View(0)
	anyVC := false
	for i, a := range l.sent {
		for _, b := range l.sent[:i] {
			if a.kind == b.kind && a.kind <= 2 {
				same := env.And(a.height == b.height, a.view == b.view)
				env.Assert([]string{"C10.one_proposal", "C10.one_prepare", "C10.one_commit"}[a.kind], env.Implies(same, env.EqBytes(a.hash, b.hash)))
			}
		}
		switch a.kind {
		case 0:
			env.Assert("C10.proposal_only_as_leader", ref.leader(a.view) == myId)
			env.Assert("C10.no_old_view", a.view >= a.atView)
		case 1:
			env.Assert("C10.prepare_never_as_leader", ref.leader(a.view) != myId)
			env.Assert("C10.prepare_in_view", env.And(a.view == a.atView, a.height == a.atH))
			ppm, ok := n.st.GetPreprepareMessage(a.height, a.view)
			env.Assert("C10.prepare_for_stored", ok)
			if ok {
				env.Assert("C10.prepare_for_stored", env.And(env.EqBytes(ppm.Content().SignedHeader().BlockHash(), a.hash),
					env.And(len(ppm.SenderMemberId()) == 1, ppm.SenderMemberId()[0] == ref.leader(a.view))))
			}
		case 2:
			// prepared certificate or commit quorum for exactly (view, hash) among the messages the node accepted for
			// storing (taken from the recorder in front of the storage, not from the storage's own getters)
			just := false
			var ppe *stub.StoreEvent
			for _, e := range n.st.Events {
				if e.Kind == "PP" && ppe == nil && e.Msg.BlockHeight() == a.height && e.Msg.View() == a.view {
					ppe = e
				}
			}
			if ppe != nil && ppe.Msg.(*interfaces.PreprepareMessage).Block() != nil {
				hashOK := env.EqBytes(ppe.Msg.(*interfaces.PreprepareMessage).Content().SignedHeader().BlockHash(), a.hash)
				pids, puse := []byte{ref.leader(a.view)}, []bool{true}
				cids, cuse := []byte{}, []bool{}
				for _, e := range n.st.Events {
					id := e.Msg.SenderMemberId()
					if len(id) != 1 {
						continue
					}
					match := env.And(e.Msg.BlockHeight() == a.height, e.Msg.View() == a.view)
					switch m := e.Msg.(type) {
					case *interfaces.PrepareMessage:
						if e.Kind == "P" {
							pids, puse = append(pids, id[0]), append(puse, env.And(match, env.EqBytes(m.Content().SignedHeader().BlockHash(), a.hash)))
						}
					case *interfaces.CommitMessage:
						if e.Kind == "C" && id[0] != myId {
							cids, cuse = append(cids, id[0]), append(cuse, env.And(match, env.EqBytes(m.Content().SignedHeader().BlockHash(), a.hash)))
						}
					}
				}
				just = env.And(hashOK, env.Or(ref.weight(pids, puse) >= ref.q(), ref.weight(cids, cuse) >= ref.q()-ref.w[wd.me]))
			}
			env.Assert("C10.commit_justified", just)
		case 3:
			if anyVC {
				env.Assert("C10.vc_increasing", a.view > lastVC)
			}
			lastVC, anyVC = a.view, true
		}
	}
}

// C10_Events: a node in a prefix state processes a sequence of symbolic events (digits of `seq`:
// 0 PREPREPARE, 1 PREPARE, 2 COMMIT, 3 VIEW_CHANGE without proof, 4 election timeout, 5 re-delivery of
// the previous message, 6 well-formed NEW_VIEW for the current or next view with a symbolic block, 7 genuine
// NEW_VIEW of an older view, 8 late genuine vote for the current view); the outbox invariants are checked after every step. An adversarial message
// without any influence ends the path (it leaves the state unchanged, so shorter runs cover it).
func C10_Events() {
	seq := env.Param("seq")
	nEvents := env.Param("events")
	me := env.Param("me")
	wd := newWorld(me, paramWeights())
	lg := &c10Log{wd: wd}
	wd.n.comm.Hook = lg.hook
	// the start of the term may already have sent a proposal (leader of view 0)
	for _, s := range wd.n.comm.Out {
		lg.hook(s)
	}
	if env.ParamOr("sendfail", 0) == 2 {
		// the transport may report an error for any NEW_VIEW broadcast (after part of the recipients got it),
		// also for the one the prefix makes the node send
		wd.n.comm.Fail = func(s *stub.Sent) bool {
			_, isNV := s.Msg.(*interfaces.NewViewMessage)
			return isNV && env.NondetBool("send_error")
		}
	}
	wd.prefix(env.Param("prefix"))
	lg.check()
	n := wd.n
	n.bu.Lenient = env.ParamOr("lenient", 0) == 1
	if env.ParamOr("sendfail", 0) == 1 {
		// the transport may report an error for any PREPARE broadcast (after part of the recipients got it)
		n.comm.Fail = func(s *stub.Sent) bool {
			_, isP := s.Msg.(*interfaces.PrepareMessage)
			return isP && env.NondetBool("send_error")
		}
	}
	var prev *interfaces.ConsensusRawMessage
	div := 1
	for i := 1; i < nEvents; i++ {
		div *= 10
	}
	for i := 0; i < nEvents; i++ {
		kind := (seq / div) % 10
		div /= 10
		s0 := n.snap()
		var raw *interfaces.ConsensusRawMessage
		switch kind {
		case 0:
			hdr := newSymRef("e")
			snd := newSymSender(wd.reg, "e_s", uint64(hdr.height), hdr.raw)
			c := (&protocol.PreprepareContentBuilder{SignedHeader: hdr.b, Sender: snd.b}).Build()
			var blk interfaces.Block
			if n.bu.Lenient && env.NondetBool("e_blockless") {
				// the envelope carries no block
			} else {
				blk = symBlock("e_blk")
			}
			raw = interfaces.NewPreprepareMessage(c, blk).ToConsensusRawMessage()
		case 1:
			raw = symPrepareRaw(wd, "e")
		case 2:
			raw, _, _, _ = symCommit(wd, "e")
		case 3:
			raw = symViewChangeRaw(wd, "e", -1)
		case 4:
			n.timeout()
		case 5:
			raw = prev
		case 6:
			// a well-formed NEW_VIEW from the (possibly Byzantine) leader of the node's current or next view,
			// backed by genuine proof-less votes of the three other members, proposing a block with a symbolic tag
			cur := n.m.state.View()
			v := cur + primitives.View(env.Choice("nv_view_offset", 2))
			ldr := int(uint64(v) % 4)
			if ldr == wd.me {
				return
			}
			var votes []*interfaces.ViewChangeMessage
			for j := 0; j < 4; j++ {
				if j != wd.me {
					votes = append(votes, wd.net.vcm(j, 1, v, nil))
				}
			}
			blk := &stub.Block{H: 1, Tag: env.NondetU8("nv_tag"), ProposalOK: true}
			raw = wd.net.nvm(ldr, 1, v, votes, blk).ToConsensusRawMessage()
		case 7:
			// a delayed but genuine NEW_VIEW of an OLDER view (one or two views back) from that view's leader
			cur := int(n.m.state.View())
			back := 1
			if cur >= 2 {
				back += env.Choice("nv_views_back", 2)
			}
			if cur < back {
				return
			}
			v := primitives.View(cur - back)
			ldr := int(uint64(v) % 4)
			if ldr == wd.me {
				return
			}
			var votes []*interfaces.ViewChangeMessage
			for j := 0; j < 4; j++ {
				if j != wd.me {
					votes = append(votes, wd.net.vcm(j, 1, v, nil))
				}
			}
			blk := &stub.Block{H: 1, Tag: env.NondetU8("nv_tag"), ProposalOK: true}
			raw = wd.net.nvm(ldr, 1, v, votes, blk).ToConsensusRawMessage()
		case 9:
			// the host re-syncs the block the current round already builds on (UpdateState with height-1): a no-op
			cur := n.m.state.Height()
			wd.sync(&stub.Block{H: cur - 1})
		case 8:
			// a late (or re-delivered) genuine proof-less vote of some other member for the node's current view
			j := othersOf(wd.me)[env.Choice("late_voter", 3)]
			raw = wd.net.vcm(j, 1, n.m.state.View(), nil).ToConsensusRawMessage()
		}
		if raw != nil {
			n.deliver(raw)
			prev = raw
			if !n.influenced(s0) && i < nEvents-1 && kind <= 6 && !n.bu.Lenient {
				return
			}
		}
		lg.check()
	}
	env.Reach("C10.done")
}
