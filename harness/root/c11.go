package leanhelix

import (
	"github.com/orbs-network/lean-helix-go/services/interfaces"
	"github.com/orbs-network/lean-helix-go/spec/types/go/primitives"
	"github.com/orbs-network/lean-helix-go/spec/types/go/protocol"
	"github.com/orbs-network/lean-helix-go/state"
	env "github.com/orbs-network/lean-helix-go/zzverifenv"
	stub "github.com/orbs-network/lean-helix-go/zzverifstub"
)

func init() {
	env.Register("C11_NextViewPrepare", C11_NextViewPrepare)
	env.Register("C11_Vote", C11_Vote)
	env.Register("C11_NewView", C11_NewView)
	env.Register("C11_PrepareCommit", C11_PrepareCommit)
	env.Register("C11_BlocklessNewView", C11_BlocklessNewView)
}

func symPrepareRaw(wd *vWorld, name string) *interfaces.ConsensusRawMessage {
	hdr := newSymRef(name)
	snd := newSymSender(wd.reg, name+"_s", uint64(hdr.height), hdr.raw)
	c := (&protocol.PrepareContentBuilder{SignedHeader: hdr.b, Sender: snd.b}).Build()
	return interfaces.NewPrepareMessage(c).ToConsensusRawMessage()
}

func symViewChangeRaw(wd *vWorld, name string, prepares int) *interfaces.ConsensusRawMessage {
	v := newSymVote(wd.reg, name, prepares >= 0, prepares)
	var blk interfaces.Block
	if env.NondetBool(name + "_with_block") {
		blk = symBlock(name + "_blk")
	}
	return interfaces.NewViewChangeMessage(v.b.Build(), blk).ToConsensusRawMessage()
}

// peer: a second correct node R sharing registry and committee with the producer.
func (wd *vWorld) peer(idx int) *vNode {
	r := newVNode(wd.reg, wd.net.committee, idx, vInstance)
	r.commitErr = true
	r.start(nil, nil, true)
	return r
}

func storedBy(n *vNode, from int, kind string, sender primitives.MemberId) bool {
	for _, e := range n.st.Events[from:] {
		if e.Kind == kind && e.Msg.SenderMemberId().Equal(sender) {
			return true
		}
	}
	return false
}

// C11_Vote: producer P (follower) accepts the view-0 proposal, then `sym` fully symbolic PREPAREs from
// anybody (Byzantine members, outsiders with keys) and possibly an honest one, then times out. The
// VIEW_CHANGE it emits is delivered to the correct leader R of view 1, which has timed out as well.
func C11_Vote() {
	me := env.Param("me") // 2 or 3
	sym := env.Param("sym")
	wd := newWorld(me, paramWeights())
	wd.prefix(1)
	p := wd.n
	for j := 0; j < sym; j++ {
		p.deliver(symPrepareRaw(wd, "ap"))
	}
	if env.NondetBool("honest_prepare") {
		other := 5 - me // the other non-leader follower among {2,3}
		p.deliver(wd.net.pm(other, 1, 0, stub.HashOf(wd.blk)).ToConsensusRawMessage())
	}
	from := len(p.comm.Out)
	p.timeout()
	vote := lastVote(p, from)
	env.Assert("C11.VC.emitted", vote != nil)
	if vote == nil {
		return
	}
	r := wd.peer(1)
	r.timeout() // R is in view 1 and is its leader
	s0 := len(r.st.Events)
	pn := env.Catch(func() { r.deliver(vote.ToConsensusRawMessage()) })
	env.Assert("C11.VC.no_panic", pn == 0)
	env.Assert("C11.VC.counted", storedBy(r, s0, "VC", p.me))
	if _, locked := wd.termPrepared(); locked {
		env.Reach("C11.VC.with_lock")
	} else {
		env.Reach("C11.VC.without_lock")
	}
}

// C11_NewView: producer P = member 1 (leader of view 1) times out, receives `sym` fully symbolic
// VIEW_CHANGE messages and honest votes from members 2 and 3; the NEW_VIEW it emits is delivered to
// correct followers R in view 0 and in view 1 that have no proposal for view 1.
func C11_NewView() {
	sym := env.Param("sym")
	prepares := env.Param("prepares")
	wd := newWorld(1, equalWeights(4))
	p := wd.n
	p.timeout()
	from := len(p.comm.Out)
	honestLocked := env.NondetBool("honest_votes_locked")
	blkA := &stub.Block{H: 1, Tag: 0xA1, ProposalOK: true}
	honestFirst := env.ParamOr("honest_first", 0) == 1
	if honestFirst {
		// the vote of member 3 arrives before the adversarial votes
		if honestLocked {
			p.deliver(wd.net.vcm(3, 1, 1, wd.net.prepared(1, 0, blkA, othersOf(0, 3))).ToConsensusRawMessage())
		} else {
			p.deliver(wd.net.vcm(3, 1, 1, nil).ToConsensusRawMessage())
		}
	}
	for j := 0; j < sym; j++ {
		p.deliver(symViewChangeRaw(wd, "av", prepares))
	}
	for _, i := range []int{2, 3} {
		if hasNewView(p, from) || (honestFirst && i == 3) {
			if honestFirst && i == 3 {
				continue
			}
			break
		}
		if honestLocked {
			p.deliver(wd.net.vcm(i, 1, 1, wd.net.prepared(1, 0, blkA, othersOf(0, i))).ToConsensusRawMessage())
		} else {
			p.deliver(wd.net.vcm(i, 1, 1, nil).ToConsensusRawMessage())
		}
	}
	var nv *interfaces.NewViewMessage
	for _, s := range p.comm.Out[from:] {
		if m, ok := s.Msg.(*interfaces.NewViewMessage); ok {
			nv = m
		}
	}
	if nv == nil {
		// the votes of the two correct members 2 and 3 plus the leader's own reach the quorum (equal weights): they
		// are counted whatever else the leader was sent in between
		env.Assert("C11.VC.counted_towards_election", wd.ref.w[0] != wd.ref.w[1] || wd.ref.w[1] != wd.ref.w[2] || wd.ref.w[2] != wd.ref.w[3])
		env.Reach("C11.NV.not_elected")
		return
	}
	env.Reach("C11.NV.emitted")
	for variant := 0; variant < 4; variant++ {
		timedOut := variant == 1
		r := wd.peer(2)
		if timedOut {
			r.timeout()
		}
		if variant == 3 {
			// R is prepared in view 0 (its vote was not among those that elected the leader)
			r.deliver(wd.net.ppm(0, 1, 0, blkA).ToConsensusRawMessage())
			for _, i := range []int{1, 3} {
				r.deliver(wd.net.pm(i, 1, 0, stub.HashOf(blkA)).ToConsensusRawMessage())
			}
		}
		if variant == 2 {
			// R is still in view 0, but its main loop has already consumed R's own election trigger for (1,0)
			// (contexts older than (1,1) are cancelled); the worker handles the queued NEW_VIEW first
			r.m.state.Contexts.CancelOlderThan(state.NewHeightView(1, 1))
		}
		out0 := len(r.comm.Out)
		pn := env.Catch(func() { r.deliver(nv.ToConsensusRawMessage()) })
		env.Assert("C11.NV.no_panic", pn == 0)
		adopted := r.m.state.View() == 1
		sentPrepare := false
		for _, s := range r.comm.Out[out0:] {
			if pm, ok := s.Msg.(*interfaces.PrepareMessage); ok && pm.View() == 1 {
				sentPrepare = true
			}
		}
		env.Assert("C11.NV.adopted", adopted && sentPrepare)
	}
}

// C11_PrepareCommit: the PREPARE and COMMIT a correct follower emits are counted by a correct peer.
func C11_PrepareCommit() {
	me := env.Param("me")
	wd := newWorld(me, paramWeights())
	wd.prefix(2) // accepted the proposal and prepared: PREPARE and COMMIT are in the outbox
	p := wd.n
	peerIdx := 5 - me
	if me == 1 {
		peerIdx = 2
	}
	r := wd.peer(peerIdx)
	peerView := env.Choice("peer_state", 3) // 0: fresh view 0; 1: holds the proposal; 2: timed out to view 1
	if peerView >= 1 {
		r.deliver(wd.net.ppm(0, 1, 0, wd.blk).ToConsensusRawMessage())
	}
	if peerView == 2 {
		r.timeout()
	}
	for _, s := range p.comm.Out {
		s0 := len(r.st.Events)
		switch m := s.Msg.(type) {
		case *interfaces.PrepareMessage:
			r.deliver(s.Raw)
			if r.m.state.View() <= m.View() {
				env.Assert("C11.P.counted", storedBy(r, s0, "P", p.me))
				env.Reach("C11.P.delivered")
			}
		case *interfaces.CommitMessage:
			r.deliver(s.Raw)
			env.Assert("C11.C.counted", storedBy(r, s0, "C", p.me))
			env.Reach("C11.C.delivered")
		}
	}
}

// C11_NextViewPrepare: every correct member p other than the new leader adopts view 1 through an honest
// NEW_VIEW and emits its PREPARE for view 1; a correct peer r that is still in view 0 (its NEW_VIEW is
// delayed) or already in view 1 must count it. Afterwards r adopts the view, prepares, times out to view 2:
// the VIEW_CHANGE it emits (with the proof built from what it stored) must be counted by the correct
// leader of view 2.
func C11_NextViewPrepare() {
	pIdx := env.Param("p") // producer: 0, 2 or 3 (member 1 leads view 1)
	rIdx := env.Param("r") // consumer: another member of {0,2,3}
	wd := newWorld(pIdx, equalWeights(4))
	p := wd.n
	blk := &stub.Block{H: 1, Tag: 0x43, ProposalOK: true}
	var votes []*interfaces.ViewChangeMessage
	for _, i := range []int{0, 2, 3} {
		votes = append(votes, wd.net.vcm(i, 1, 1, nil))
	}
	nv := wd.net.nvm(1, 1, 1, votes, blk).ToConsensusRawMessage()
	out0 := len(p.comm.Out)
	p.timeout()
	p.deliver(nv)
	var prep *stub.Sent
	for _, s := range p.comm.Out[out0:] {
		if pm, ok := s.Msg.(*interfaces.PrepareMessage); ok && pm.View() == 1 {
			prep = s
		}
	}
	env.Assert("C11.setup.prepare_emitted", prep != nil)
	if prep == nil {
		return
	}
	r := wd.peer(rIdx)
	early := env.NondetBool("prepare_before_new_view")
	if !early {
		r.timeout()
		r.deliver(nv)
	}
	s0 := len(r.st.Events)
	r.deliver(prep.Raw)
	env.Assert("C11.P.counted", storedBy(r, s0, "P", p.me))
	// the producer becomes prepared in view 1 (PREPAREs of the others) and sends its COMMIT, which reaches the peer
	// while that peer may still be in view 0: COMMITs of correct nodes are counted at that height whatever the view
	for _, i := range othersOf(pIdx, 1) {
		p.deliver(wd.net.pm(i, 1, 1, stub.HashOf(blk)).ToConsensusRawMessage())
	}
	for _, sm := range p.comm.Out[out0:] {
		if cm, ok := sm.Msg.(*interfaces.CommitMessage); ok && cm.View() == 1 {
			c0 := len(r.st.Events)
			r.deliver(sm.Raw)
			env.Assert("C11.C.counted", storedBy(r, c0, "C", p.me))
			env.Reach("C11.C.future_view")
		}
	}
	if early {
		env.Reach("C11.P.future_view")
		r.timeout()
		r.deliver(nv)
	}
	// r now holds the proposal of view 1, its own PREPARE and p's: with the leader that is a quorum
	from := len(r.comm.Out)
	r.timeout() // to view 2, led by member 2
	if rIdx == 2 {
		return // r is itself the next leader: its vote is not sent
	}
	vote := lastVote(r, from)
	env.Assert("C11.VC.emitted", vote != nil)
	if vote == nil {
		return
	}
	l2 := wd.peer(2)
	l2.timeout()
	l2.timeout()
	s1 := len(l2.st.Events)
	l2.deliver(vote.ToConsensusRawMessage())
	env.Assert("C11.VC.counted", storedBy(l2, s1, "VC", r.me))
	env.Reach("C11.VC.after_next_view_prepare")
}

// C11_BlocklessNewView: the consumer does not object to a missing block (as the repository's own mocks). The Byzantine
// leader of view 1 sends an otherwise genuine proof-less NEW_VIEW whose envelope carries NO block; PREPAREs and
// COMMITs of the other members for its hash follow. Whatever the node does with it, it must not panic out of the
// worker's handler, and the VIEW_CHANGE it sends at its next timeout must still be counted by the correct leader of
// view 2 (a node that votes "proof without block" is ignored by every leader: the height is wedged).
func C11_BlocklessNewView() {
	const me = 3
	wd := newWorld(me, paramWeights())
	n, net := wd.n, wd.net
	n.bu.Lenient = true
	n.timeout()
	blk := &stub.Block{H: 1, Tag: 0x27, ProposalOK: true}
	var votes []*interfaces.ViewChangeMessage
	for _, i := range othersOf(me) {
		votes = append(votes, net.vcm(i, 1, 1, nil))
	}
	full := net.nvm(1, 1, 1, votes, blk)
	var carried interfaces.Block
	if env.NondetBool("block_attached") {
		carried = blk
	}
	p := 0
	deliver := func(raw *interfaces.ConsensusRawMessage) {
		if q := env.Catch(func() { n.m.worker.handleRawMessage(raw) }); q != 0 {
			p = q
		}
	}
	deliver(interfaces.NewNewViewMessage(full.Content(), carried).ToConsensusRawMessage())
	hash := stub.HashOf(blk)
	for _, i := range []int{0, 2} {
		deliver(net.pm(i, 1, 1, hash).ToConsensusRawMessage())
	}
	for _, i := range othersOf(me) {
		deliver(net.cm(i, 1, 1, hash).ToConsensusRawMessage())
	}
	env.Assert("C12.worker.no_panic", p == 0)
	if len(n.commits) > 0 {
		env.Assert("C04.block_present", n.commits[0].block != nil)
		env.Reach("C11.blockless.committed")
		return
	}
	from := len(n.comm.Out)
	n.timeout()
	vote := lastVote(n, from)
	env.Assert("C11.VC.emitted", vote != nil)
	if vote == nil {
		return
	}
	r := wd.peer(2)
	r.timeout()
	r.timeout()
	s0 := len(r.st.Events)
	r.deliver(vote.ToConsensusRawMessage())
	env.Assert("C11.VC.counted", storedBy(r, s0, "VC", n.me))
	env.Reach("C11.blockless.voted")
}
