package leanhelix

import (
	"context"

	"github.com/orbs-network/lean-helix-go/services/interfaces"
	"github.com/orbs-network/lean-helix-go/spec/types/go/primitives"
	"github.com/orbs-network/lean-helix-go/state"
	env "github.com/orbs-network/lean-helix-go/zzverifenv"
	stub "github.com/orbs-network/lean-helix-go/zzverifstub"
)

func init() {
	env.Register("C12_FullQueue", C12_FullQueue)
	env.Register("C12_Bytes", C12_Bytes)
	env.Register("C12_Mutate", C12_Mutate)
	env.Register("C12_MutateFuture", C12_MutateFuture)
	env.Register("C12_ElectionAfterMessage", C12_ElectionAfterMessage)
}

// C12_Mutate: a genuine message of the given kind (PREPREPARE, PREPARE, COMMIT, VIEW_CHANGE with proof,
// NEW_VIEW with votes and proof: 60..400 bytes) in which one 4-byte-aligned window (symbolic choice of the
// position) is replaced by 4 arbitrary bytes: this reaches every length prefix, union tag and field of the
// nested structure. It goes through the main loop (channel model) and the worker's message handler; then
// a complete honest round is delivered, which must still commit.
func C12_Mutate() {
	kind := env.Param("kind")
	wd := newWorld(1, equalWeights(4))
	n, net := wd.n, wd.net
	n.timeout() // view 1: this node is the leader collecting votes, and accepts NEW_VIEWs of later views
	blk := &stub.Block{H: 1, Tag: 0x21, ProposalOK: true}
	var msg interfaces.ConsensusMessage
	switch kind {
	case 0:
		msg = net.ppm(1, 1, 1, blk)
	case 1:
		msg = net.pm(2, 1, 1, stub.HashOf(blk))
	case 2:
		msg = net.cm(2, 1, 1, stub.HashOf(blk))
	case 3:
		msg = net.vcm(2, 1, 1, net.prepared(1, 0, blk, []int{2, 3}))
	case 4:
		votes := []*interfaces.ViewChangeMessage{net.vcm(0, 1, 2, net.prepared(1, 0, blk, []int{1, 3})), net.vcm(2, 1, 2, nil), net.vcm(3, 1, 2, nil)}
		msg = net.nvm(2, 1, 2, votes, blk)
	}
	raw := msg.ToConsensusRawMessage()
	content := make([]byte, len(raw.Content))
	copy(content, raw.Content)
	nwin := len(content) / 4
	w := env.Choice("window", nwin)
	for i := 0; i < 4; i++ {
		content[4*w+i] = env.NondetU8("w")
	}
	if env.ParamOr("windows", 1) == 2 {
		// a second, later window: two cooperating malformed fields
		w2 := env.Choice("window2", nwin)
		env.Assume(w2 > w)
		for i := 0; i < 4; i++ {
			content[4*w2+i] = env.NondetU8("x")
		}
	}
	mut := &interfaces.ConsensusRawMessage{Content: content, Block: raw.Block}

	ctx := env.CancelWhenIdle()
	env.ChanOffer(n.m.messagesChannel, mut)
	p := 0
	env.Assert("C12.bounded_work", env.Bounded(func() { p = env.Catch(func() { n.m.run(ctx) }) }))
	env.Assert("C12.main.no_panic", p == 0)
	if p != 0 {
		return
	}
	if env.ChanBuffered(n.m.worker.MessagesChannel) == 1 {
		fw := <-n.m.worker.MessagesChannel
		p2 := 0
		bounded := env.Bounded(func() { p2 = env.Catch(func() { n.m.worker.handleRawMessage(fw) }) })
		env.Assert("C12.bounded_work", bounded)
		if !bounded {
			return
		}
		env.Assert("C12.worker.no_panic", p2 == 0)
		env.Reach("C12.mutate.forwarded")
	}
	// the node is not wedged: an honest round in its current view still commits. (The main loop's exit
	// shut the contexts down; a running node's main loop does not exit, so use a node state without it:
	// the commit path needs the term-level context, hence the follow-up runs on a twin that received the
	// same message through the worker path only.)
	const tw = 2 // the twin is member 2 (a follower in view 1)
	twin := newWorld(tw, equalWeights(4))
	twin.n.timeout()
	p3 := 0
	if !env.Bounded(func() { p3 = env.Catch(func() { twin.n.m.worker.handleRawMessage(mut) }) }) {
		return
	}
	env.Assert("C12.worker.no_panic", p3 == 0)
	tv := twin.n.m.state.View()
	ldr := int(uint64(tv) % 4)
	if ldr == tw {
		return // the twin leads its view: a follow-up round would need its own votes; covered by C09/C11
	}
	if _, has := twin.n.st.GetPreprepareMessage(1, tv); has {
		return // the (unmutated-equivalent) message already was this view's proposal
	}
	fb := &stub.Block{H: 1, Tag: 0x25, ProposalOK: true}
	twin.n.deliver(twin.net.ppm(ldr, 1, tv, fb).ToConsensusRawMessage())
	for i := 0; i < 4; i++ {
		if i != tw && i != ldr {
			twin.n.deliver(twin.net.pm(i, 1, tv, stub.HashOf(fb)).ToConsensusRawMessage())
		}
	}
	for i := 0; i < 4; i++ {
		if i != tw {
			twin.n.deliver(twin.net.cm(i, 1, tv, stub.HashOf(fb)).ToConsensusRawMessage())
		}
	}
	env.Assert("C12.followup_commits", len(twin.n.commits) == 1)
	env.Reach("C12.mutate.followup")
}

// C12_Bytes: arbitrary content bytes (and a present or absent block) handed to HandleConsensusMessage:
// first what the main loop does with the message (one iteration of the real MainLoop.run in the
// channel model), then what the worker does with it (one iteration of the real WorkerLoop.Run).
func C12_Bytes() {
	L := env.Param("len")
	reg := stub.NewRegistry()
	committee := vCommittee(4, equalWeights(4))
	n := newVNode(reg, committee, env.Choice("me", 2), 7)
	genesis := &stub.Block{H: 0}
	n.start(genesis, nil, true)

	content := env.NondetBytes("content", L)
	raw := &interfaces.ConsensusRawMessage{Content: content}
	if env.NondetBool("with_block") {
		raw.Block = &stub.Block{H: primitives.BlockHeight(env.NondetU64("bh")), Tag: env.NondetU8("btag"), ProposalOK: true}
	}

	// main loop: HandleConsensusMessage blocks on messagesChannel until the loop takes the message
	ctx := env.CancelWhenIdle()
	env.ChanOffer(n.m.messagesChannel, raw)
	p := env.Catch(func() { n.m.run(ctx) })
	env.Assert("C12.main.no_panic", p == 0)
	if p != 0 {
		return
	}
	// worker loop: takes the forwarded message from its buffered channel
	// a message the main loop cannot parse may be dropped; otherwise it is forwarded exactly once
	forwarded := env.ChanBuffered(n.m.worker.MessagesChannel)
	env.Assert("C12.main.forwarded_at_most_once", forwarded <= 1)
	if forwarded == 0 {
		env.Reach("C12.bytes.dropped")
		return
	}
	ctx2 := env.CancelWhenIdle()
	p2 := 0
	bounded := env.Bounded(func() { p2 = env.Catch(func() { n.m.worker.Run(ctx2) }) })
	env.Assert("C12.bounded_work", bounded)
	if !bounded {
		return
	}
	env.Assert("C12.worker.no_panic", p2 == 0)
	env.Reach("C12.bytes.done")
}

// C12_FullQueue: the worker's message queue (capacity 1000) is full because the worker is busy; one more
// valid message arrives, followed by an UpdateState and an election trigger. The main loop must take all
// three events (it never blocks on the worker): afterwards nothing offered to it is still pending.
func C12_FullQueue() {
	wd := newWorld(1, equalWeights(4))
	n := wd.n
	msg := wd.net.pm(2, 1, 0, primitives.BlockHash{0x21}).ToConsensusRawMessage()
	for i := 0; i < cap(n.m.worker.MessagesChannel); i++ {
		n.m.worker.MessagesChannel <- msg
	}
	env.ChanOffer(n.m.messagesChannel, msg)
	// the UpdateState caller shows up once the message has been taken
	env.ChanOfferAfter(n.m.mainUpdateStateChannel, &blockWithProof{block: &stub.Block{H: 5}}, n.m.messagesChannel)
	p := env.RunUntilParked(func() { n.m.run(context.Background()) })
	env.Assert("C12.main.no_panic", p != 1)
	env.Assert("C12.main.takes_every_event", env.ChanPending(n.m.messagesChannel) == 0)
	env.Assert("C12.main.takes_every_event", env.ChanPending(n.m.mainUpdateStateChannel) == 0)
	env.Assert("C14.update_state_taken_despite_full_queue", env.ChanPending(n.m.mainUpdateStateChannel) == 0 && env.ChanBuffered(n.m.worker.workerUpdateStateChannel) == 1)
	env.Assert("C12.main.takes_every_event", env.ChanBuffered(n.m.worker.workerUpdateStateChannel) == 1)
	env.Reach("C12.fullqueue.done")
}

// C12_MutateFuture: the same structured mutation applied to a genuine message of the NEXT height while the node
// is at height 1: a parseable message is put into the future cache by the worker's message handler. The node
// is then synced to height 2 the way WorkerLoop.Run does it (handleUpdateState, no recover of its own) and the
// cached message reaches the handlers of the new term. No panic may escape to the supervising loop, and a
// complete honest round of height 2 must still commit.
func C12_MutateFuture() {
	kind := env.Param("kind")
	const me = 1
	wd := newWorld(me, equalWeights(4))
	n := wd.n
	n.commitErr = false
	b1 := &stub.Block{H: 1, Tag: 0x21, ProposalOK: true}
	// the peers of height 2 derive their seed from the (empty) proof handed over by the sync
	net2 := newVNet(wd.reg, wd.net.committee, vInstance, nil)
	blk := &stub.Block{H: 2, Tag: 0x23, ProposalOK: true}
	var msg interfaces.ConsensusMessage
	switch kind {
	case 0:
		msg = net2.ppm(0, 2, 0, blk)
	case 1:
		msg = net2.pm(2, 2, 0, stub.HashOf(blk))
	case 2:
		msg = net2.cm(2, 2, 0, stub.HashOf(blk))
	case 3:
		msg = net2.vcm(2, 2, 1, net2.prepared(2, 0, blk, []int{2, 3}))
	case 4:
		votes := []*interfaces.ViewChangeMessage{net2.vcm(0, 2, 2, net2.prepared(2, 0, blk, []int{1, 3})), net2.vcm(2, 2, 2, nil), net2.vcm(3, 2, 2, nil)}
		msg = net2.nvm(2, 2, 2, votes, blk)
	}
	raw := msg.ToConsensusRawMessage()
	content := make([]byte, len(raw.Content))
	copy(content, raw.Content)
	w := env.Choice("window", len(content)/4)
	for i := 0; i < 4; i++ {
		content[4*w+i] = env.NondetU8("w")
	}
	mut := &interfaces.ConsensusRawMessage{Content: content, Block: raw.Block}
	p := 0
	if !env.Bounded(func() { p = env.Catch(func() { n.m.worker.handleRawMessage(mut) }) }) {
		env.Assert("C12.bounded_work", false)
		return
	}
	env.Assert("C12.worker.no_panic", p == 0)
	// node sync to height 2, exactly what WorkerLoop.Run does with an UpdateState
	hv := state.NewHeightView(2, 0)
	n.m.state.Contexts.CancelOlderThan(hv)
	p2 := 0
	if !env.Bounded(func() { p2 = env.Catch(func() { n.m.worker.handleUpdateState(&blockWithProof{block: b1}) }) }) {
		env.Assert("C12.bounded_work", false)
		return
	}
	env.Assert("C12.worker.sync_no_panic", p2 == 0)
	if p2 != 0 {
		return
	}
	env.Assert("C12.future.height2", n.m.state.Height() == 2)
	env.Reach("C12.future.synced")
	if kind == 3 || kind == 4 || n.m.state.View() != 0 {
		return
	}
	if _, has := n.st.GetPreprepareMessage(2, 0); !has {
		n.deliver(net2.ppm(0, 2, 0, blk).ToConsensusRawMessage())
	}
	for i := 2; i < 4; i++ {
		n.deliver(net2.pm(i, 2, 0, stub.HashOf(blk)).ToConsensusRawMessage())
	}
	for i := 0; i < 4; i++ {
		if i != me {
			n.deliver(net2.cm(i, 2, 0, stub.HashOf(blk)).ToConsensusRawMessage())
		}
	}
	env.Assert("C12.followup_commits", len(n.commits) == 1)
	env.Reach("C12.future.followup")
}

// C12_ElectionAfterMessage: a stored message must not poison a later step. The node holds the view-0 proposal and
// receives one fully symbolic PREPARE or COMMIT (handled by the worker's real entry point); then its election timer
// fires, and then a genuine NEW_VIEW of the next view arrives. Neither step may panic (the election runs in the
// worker loop without a per-message recovery), the node must have moved on and must follow the NEW_VIEW.
func C12_ElectionAfterMessage() {
	me := env.Param("me") // 2 or 3
	wd := newWorld(me, equalWeights(4))
	n, net := wd.n, wd.net
	wd.prefix(1)
	var raw *interfaces.ConsensusRawMessage
	if env.Param("kind") == 1 {
		raw = symPrepareRaw(wd, "m")
	} else {
		raw, _, _, _ = symCommit(wd, "m")
	}
	p0 := env.Catch(func() { n.m.worker.handleRawMessage(raw) })
	env.Assert("C12.worker.no_panic", p0 == 0)
	p1 := env.Catch(func() { n.timeout() })
	env.Assert("C12.election.no_panic", p1 == 0)
	env.Assert("C12.election.moved_on", n.m.state.View() == 1)
	// view 2 is led by member 2; if that is this node, use view 3
	nvv := primitives.View(2)
	if me == 2 {
		nvv = 3
	}
	var votes []*interfaces.ViewChangeMessage
	for _, i := range othersOf(me) {
		votes = append(votes, net.vcm(i, 1, nvv, nil))
	}
	nv := net.nvm(int(uint64(nvv)%4), 1, nvv, votes, &stub.Block{H: 1, Tag: 0x29, ProposalOK: true})
	p2 := env.Catch(func() { n.deliver(nv.ToConsensusRawMessage()) })
	env.Assert("C12.new_view.no_panic", p2 == 0)
	env.Assert("C12.new_view.followed", n.m.state.View() == nvv)
	env.Reach("C12.election_after_message.done")
}
