package leanhelix

import (
	"github.com/orbs-network/lean-helix-go/services/interfaces"
	"github.com/orbs-network/lean-helix-go/spec/types/go/primitives"
	env "github.com/orbs-network/lean-helix-go/zzverifenv"
	stub "github.com/orbs-network/lean-helix-go/zzverifstub"
)

func init() {
	env.Register("C12_Bytes", C12_Bytes)
}

// C12_Bytes: arbitrary content bytes (and a present or absent block) handed to HandleConsensusMessage:
// first what the main loop does with the message (one iteration of the real MainLoop.run in the
// channel model), then what the worker does with it (one iteration of the real WorkerLoop.Run).
func C12_Bytes() {
	L := env.Param("len")
	reg := stub.NewRegistry()
	committee := vCommittee(4, equalWeights(4))
	n := newVNode(reg, committee, env.Choice("me", 2), 7)
	genesis := &stub.Block{H: 0}
	n.start(genesis, nil, true)

	content := env.NondetBytes("content", L)
	raw := &interfaces.ConsensusRawMessage{Content: content}
	if env.NondetBool("with_block") {
		raw.Block = &stub.Block{H: primitives.BlockHeight(env.NondetU64("bh")), Tag: env.NondetU8("btag"), ProposalOK: true}
	}

	// main loop: HandleConsensusMessage blocks on messagesChannel until the loop takes the message
	ctx := env.CancelWhenIdle()
	env.ChanOffer(n.m.messagesChannel, raw)
	p := env.Catch(func() { n.m.run(ctx) })
	env.Assert("C12.main.no_panic", p == 0)
	if p != 0 {
		return
	}
	// worker loop: takes the forwarded message from its buffered channel
	// a message the main loop cannot parse may be dropped; otherwise it is forwarded exactly once
	forwarded := env.ChanBuffered(n.m.worker.MessagesChannel)
	env.Assert("C12.main.forwarded_at_most_once", forwarded <= 1)
	if forwarded == 0 {
		env.Reach("C12.bytes.dropped")
		return
	}
	ctx2 := env.CancelWhenIdle()
	p2 := env.Catch(func() { n.m.worker.Run(ctx2) })
	env.Assert("C12.worker.no_panic", p2 == 0)
	env.Reach("C12.bytes.done")
}
