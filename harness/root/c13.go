package leanhelix

import (
	"context"

	"github.com/orbs-network/lean-helix-go/services/interfaces"
	"github.com/orbs-network/lean-helix-go/services/randomseed"
	"github.com/orbs-network/lean-helix-go/spec/types/go/protocol"
	"github.com/orbs-network/lean-helix-go/spec/types/go/primitives"
	"github.com/orbs-network/lean-helix-go/state"
	env "github.com/orbs-network/lean-helix-go/zzverifenv"
	stub "github.com/orbs-network/lean-helix-go/zzverifstub"
)

func init() {
	env.Register("C14_SyncDuringCommit", C14_SyncDuringCommit)
	env.Register("C13_FutureRound", C13_FutureRound)
	env.Register("C13_Worker", C13_Worker)
	env.Register("C14_Sync", C14_Sync)
	env.Register("C14_MainLoop", C14_MainLoop)
	env.Register("C13_CommitThenPrepared", C13_CommitThenPrepared)
	env.Register("C14_SyncDuringProposal", C14_SyncDuringProposal)
	env.Register("C19_StaleTrigger", C19_StaleTrigger)
}

type c13Obs struct {
	wd       *vWorld
	lastH    uint64
	lastV    uint64
	nRounds  int
	nCommits int
}

// observe: after every worker event, the callback sequences and the (height, view) state.
func (o *c13Obs) observe() {
	n := o.wd.n
	hv := n.m.state.HeightView()
	h, v := uint64(hv.Height()), uint64(hv.View())
	env.Assert("C13.hv_lex_monotone", env.Or(h > o.lastH, env.And(h == o.lastH, v >= o.lastV)))
	env.Assert("C13.view_reset_iff_height_up", env.Implies(h > o.lastH, v == 0))
	o.lastH, o.lastV = h, v
	for i := o.nRounds; i < len(n.rounds); i++ {
		if i > 0 {
			env.Assert("C13.round_cb_increasing", n.rounds[i].height > n.rounds[i-1].height)
		}
		// a commit callback for height x is only followed by rounds above x
		for _, c := range n.commits {
			if c.block != nil {
				env.Assert("C13.round_after_commit_higher", env.Implies(true, env.Or(c.seq > i, n.rounds[i].height > c.block.H)))
			}
		}
	}
	o.nRounds = len(n.rounds)
	for i := o.nCommits; i < len(n.commits); i++ {
		if i > 0 && n.commits[i].block != nil && n.commits[i-1].block != nil {
			env.Assert("C13.commit_cb_increasing", n.commits[i].block.H > n.commits[i-1].block.H)
		}
	}
	o.nCommits = len(n.commits)
	for _, c := range n.commits {
		// a height is committed only in a round that was announced before
		env.Assert("C13.commit_after_its_round", c.seq >= 1 && c.block != nil && n.rounds[c.seq-1].height == c.block.H)
	}
	o.wd.checkHeightIsAnnouncedRound()
}

// honestRound delivers a full honest round for the node's current height (proposal by leader 0 unless the
// node is the leader itself, prepares, commits).
func (wd *vWorld) honestRound(h primitives.BlockHeight, tag byte) {
	n, net := wd.n, wd.net
	me := wd.me
	var hash primitives.BlockHash
	if me == 0 {
		// leader of view 0: use its own proposal if it made one for this height
		var own *stub.ProposalCall
		for _, r := range n.bu.Requests {
			if r.Height == h {
				own = r
			}
		}
		if own == nil {
			return
		}
		hash = own.Hash
	} else {
		b := &stub.Block{H: h, Tag: tag, ProposalOK: true}
		hash = stub.HashOf(b)
		n.deliver(net.ppm(0, h, 0, b).ToConsensusRawMessage())
	}
	for i := 1; i < 4; i++ {
		if i != me {
			n.deliver(net.pm(i, h, 0, hash).ToConsensusRawMessage())
		}
	}
	for i := 0; i < 4; i++ {
		if i != me {
			n.deliver(net.cm(i, h, 0, hash).ToConsensusRawMessage())
		}
	}
}

// sync: what the main loop does before forwarding a sync, then what the worker does with it.
func (wd *vWorld) sync(b *stub.Block) {
	n := wd.n
	hv := state.NewHeightView(b.H+1, 0)
	n.m.state.Contexts.CancelOlderThan(hv)
	if _, err := n.m.state.Contexts.For(hv); err != nil {
		return
	}
	n.m.worker.handleUpdateState(&blockWithProof{block: b})
}

// C13_Worker: worker-level events from a symbolic start height: commit with a symbolic callback result,
// sync to a symbolic height (older, equal, newer), election timeout, re-delivered commit traffic.
func C13_Worker() {
	me := env.Param("me")
	k := env.Param("events")
	wd := newWorldStopped(me, paramWeights())
	n := wd.n
	n.commitErr = env.ParamOr("commit_fails", 0) == 1
	p0 := env.NondetU64("p0")
	env.Assume(p0 < 1<<62)
	var prev interfaces.Block
	if p0 > 0 {
		prev = &stub.Block{H: primitives.BlockHeight(p0)}
	}
	// the seed of the peers must match the node's (empty previous proof)
	n.start(prev, nil, true)
	obs := &c13Obs{wd: wd}
	obs.observe()
	env.Assert("C13.first_round", len(n.rounds) == 1 && uint64(n.rounds[0].height) == p0+1)
	for i := 0; i < k; i++ {
		cur := n.m.state.Height()
		switch env.Choice("event", 4) {
		case 0:
			n.commitErr = env.NondetBool("commit_cb_fails")
			before := len(n.commits)
			wd.honestRound(cur, byte(0x31+2*i))
			if len(n.commits) > before {
				env.Assert("C13.commit_once_per_round", len(n.commits) == before+1)
				env.Assert("C13.commit_height_is_term_height", n.commits[before].block != nil && n.commits[before].block.H == cur)
				env.Reach("C13.committed")
			}
		case 1:
			b := env.NondetU64("sync_h")
			env.Assume(b < 1<<62)
			wd.sync(&stub.Block{H: primitives.BlockHeight(b)})
		case 2:
			n.timeout()
		case 3:
			// stale traffic of an earlier height re-delivered
			if cur > 1 {
				wd.honestRound(cur-1, byte(0x31+2*i))
			}
		}
		obs.observe()
	}
	env.Reach("C13.worker.done")
}

// C14_Sync: UpdateState(block) for a symbolic height handled by the worker from a symbolic start height.
func C14_Sync() {
	me := env.Param("me")
	wd := newWorldStopped(me, equalWeights(4))
	n := wd.n
	p0 := env.NondetU64("p0")
	env.Assume(p0 < 1<<62)
	var prev interfaces.Block
	if p0 > 0 {
		prev = &stub.Block{H: primitives.BlockHeight(p0)}
	}
	n.start(prev, nil, true)
	cur := uint64(n.m.state.Height())
	rounds, out := len(n.rounds), len(n.comm.Out)
	b := env.NondetU64("sync_h")
	env.Assume(b < 1<<62)
	blk := &stub.Block{H: primitives.BlockHeight(b)}
	wd.sync(blk)
	after := uint64(n.m.state.Height())
	if b >= cur {
		env.Assert("C14.sync_takes_effect", after == b+1)
		env.Assert("C14.round_callback", len(n.rounds) == rounds+1)
		if len(n.rounds) == rounds+1 {
			r := n.rounds[rounds]
			env.Assert("C14.round_callback_args", env.And(uint64(r.height) == b+1, r.prevBlock == interfaces.Block(blk)))
			env.Assert("C14.not_first_leader", !r.canBeFirstLeader)
		}
		// no view-0 PREPREPARE after a sync above height 1
		for _, s := range n.comm.Out[out:] {
			if pp, ok := s.Msg.(*interfaces.PreprepareMessage); ok {
				// (a sync of exactly the block being committed is overtaken by the commit itself: the node then enters
			// height 2 through its own commit and may lead it)
			env.Assert("C14.no_first_leader_proposal", env.Or(pp.View() != 0, env.Or(pp.BlockHeight() <= 1, env.And(b == 1, pp.BlockHeight() == 2))))
			}
		}
		env.Reach("C14.synced")
	} else {
		env.Assert("C14.stale_sync_noop", env.And(after == cur, env.And(len(n.rounds) == rounds, len(n.comm.Out) == out)))
		env.Reach("C14.stale")
	}
	// a second, older-or-equal sync changes nothing either
	b2 := env.NondetU64("sync2_h")
	env.Assume(b2 < after)
	r2, o2 := len(n.rounds), len(n.comm.Out)
	wd.sync(&stub.Block{H: primitives.BlockHeight(b2)})
	env.Assert("C14.stale_sync_noop", env.And(uint64(n.m.state.Height()) == after, env.And(len(n.rounds) == r2, len(n.comm.Out) == o2)))
}

// C14_MainLoop: up to 3 UpdateState calls with symbolic heights handled by the real MainLoop.run in the
// channel model (the worker does not drain its channel: worst case for the single-slot buffer).
func C14_MainLoop() {
	k := env.Param("syncs")
	wd := newWorld(1, equalWeights(4))
	n := wd.n
	pre := env.Param("prefilled") == 1
	if pre {
		// a sync forwarded earlier and not yet taken by the worker
		n.m.worker.workerUpdateStateChannel <- &blockWithProof{block: &stub.Block{H: 0}}
	}
	hs := make([]uint64, k)
	max := uint64(0)
	for i := 0; i < k; i++ {
		hs[i] = env.NondetU64("b")
		env.Assume(hs[i] < 1<<62)
		env.ChanOffer(n.m.mainUpdateStateChannel, &blockWithProof{block: &stub.Block{H: primitives.BlockHeight(hs[i])}})
		max = env.IteU64(hs[i] > max, hs[i], max)
	}
	if ne := env.ParamOr("elections", 0); ne > 0 {
		// election triggers for the current height (not stale) arrive while an earlier trigger is still parked in
		// the worker's one-slot channel (the worker is busy in an SPI call and takes nothing)
		n.m.worker.electionChannel <- &interfaces.ElectionTrigger{MoveToNextLeader: func() {}, Hv: state.NewHeightView(1, 0)}
		for i := 0; i < ne; i++ {
			ev := env.NondetU64("ev")
			env.Assume(ev < 1<<62)
			env.ChanOffer(n.el.Channel, &interfaces.ElectionTrigger{MoveToNextLeader: func() {}, Hv: state.NewHeightView(1, primitives.View(ev))})
		}
	}
	ctx := env.CancelWhenIdle()
	p := env.Catch(func() { n.m.run(ctx) })
	env.Assert("C14.mainloop_never_blocks", p == 0)
	env.Assert("C14.all_updates_received", env.ChanPending(n.m.mainUpdateStateChannel) == 0)
	// the single slot holds the newest sync
	env.Assert("C14.slot_filled", env.ChanBuffered(n.m.worker.workerUpdateStateChannel) == 1)
	if env.ChanBuffered(n.m.worker.workerUpdateStateChannel) == 1 {
		got := <-n.m.worker.workerUpdateStateChannel
		env.Assert("C14.newest_sync_wins", got.block != nil && uint64(got.block.Height()) == max)
	}
	env.Reach("C14.mainloop.done")
}

// C13_FutureRound: the complete honest traffic of height 2 arrives while the node is still deciding
// height 1 (it sits in the future cache); then height 1 commits. Entering height 2 drains the cache, which
// commits height 2 from inside the start of the round. The callback sequences must stay strictly increasing.
func C13_FutureRound() {
	me := env.Param("me") // 1..3
	wd := newWorld(me, paramWeights())
	n := wd.n
	n.commitErr = false
	n.st.OnStore = func(e *stub.StoreEvent) { e.StateHeight = n.m.state.Height() }
	obs := &c13Obs{wd: wd}
	obs.observe()
	agg1 := stub.GroupSeedSig(1, randomseed.RandomSeedToBytes(wd.net.seed))
	proof1 := (&protocol.BlockProofBuilder{RandomSeedSignature: agg1}).Build().Raw()
	net2 := newVNet(wd.reg, wd.net.committee, vInstance, proof1)
	b2 := &stub.Block{H: 2, Tag: 0x23, ProposalOK: true}
	full := env.NondetBool("height2_traffic_complete")
	// height-2 traffic first (cached), PREPAREs before or after the COMMITs
	preparesLast := env.NondetBool("prepares_arrive_last")
	n.deliver(net2.ppm(0, 2, 0, b2).ToConsensusRawMessage())
	if env.ParamOr("duplicate", 0) == 1 {
		n.deliver(net2.ppm(0, 2, 0, b2).ToConsensusRawMessage()) // a retransmission, cached as well
	}
	sendPrepares := func() {
		for i := 1; i < 4; i++ {
			if i != me {
				n.deliver(net2.pm(i, 2, 0, stub.HashOf(b2)).ToConsensusRawMessage())
			}
		}
	}
	if !preparesLast {
		sendPrepares()
	}
	if full {
		for i := 0; i < 4; i++ {
			if i != me {
				n.deliver(net2.cm(i, 2, 0, stub.HashOf(b2)).ToConsensusRawMessage())
			}
		}
	}
	if preparesLast {
		sendPrepares()
	}
	obs.observe()
	env.Assert("C13.future.nothing_yet", len(n.commits) == 0 && len(n.rounds) == 1)
	// now height 1 commits
	b1 := &stub.Block{H: 1, Tag: 0x21, ProposalOK: true}
	roundWith(n, me, wd.net, 1, b1)
	obs.observe()
	// C17: a cached message reaches the protocol logic of its own height's term only
	for _, e := range n.st.Events {
		env.Assert("C17.only_own_height", e.Msg.BlockHeight() == e.StateHeight)
	}
	// sequences of callback arguments
	for i := 1; i < len(n.rounds); i++ {
		env.Assert("C13.round_cb_increasing", n.rounds[i].height > n.rounds[i-1].height)
	}
	for i := 1; i < len(n.commits); i++ {
		env.Assert("C13.commit_cb_increasing", n.commits[i].block != nil && n.commits[i-1].block != nil && n.commits[i].block.H > n.commits[i-1].block.H)
	}
	env.Assert("C13.future.height1_committed", len(n.commits) >= 1)
	if full && len(n.commits) == 2 {
		env.Reach("C13.future.committed_from_cache")
		// the node is at height 3 now: a proposal of height 3 is answered by the term of height 3
		if n.m.state.Height() == 3 && me != 0 {
			net3 := newVNet(wd.reg, wd.net.committee, vInstance, n.commits[1].proof)
			out := len(n.comm.Out)
			ev := len(n.st.Events)
			b3 := &stub.Block{H: 3, Tag: 0x25, ProposalOK: true}
			roundWith(n, me, net3, 3, b3)
			env.Assert("C17.next_height_message_handled_by_its_term", len(n.comm.Out) > out)
			for _, e := range n.st.Events[ev:] {
				env.Assert("C17.only_own_height", e.Msg.BlockHeight() == e.StateHeight)
			}
			// ... by the term of height 3, which can commit it (a left-over term of height 2 answers but never commits)
			env.Assert("C17.next_height_commits", len(n.commits) == 3 && n.commits[2].block != nil && n.commits[2].block.H == 3)
			env.Assert("C13.commit_cb_increasing", len(n.commits) == 3 && n.commits[2].block != nil && n.commits[2].block.H == 3)
			wd.checkHeightIsAnnouncedRound()
		}
	}
}

// C14_SyncDuringCommit: UpdateState(block of a symbolic height above the current one) is handled by the real
// main loop while the worker is inside the commit callback of height 1 (the harness runs MainLoop.run from
// inside the callback until the loop parks in its select, i.e. after it has gone through its per-iteration
// context GC again). The callback then returns nil. When everything has settled, the node must be working on
// the height after the synced block, and it must not have acted as first leader of height 2.
func C14_SyncDuringCommit() {
	me := env.Param("me")
	wd := newWorld(me, equalWeights(4))
	n := wd.n
	n.commitErr = false
	b := env.NondetU64("sync_h")
	env.Assume(b >= 1 && b < 1<<62) // including a sync of exactly the block being committed
	syncBlock := &stub.Block{H: primitives.BlockHeight(b)}
	parked := -1
	ctxSeen := false
	n.onCommitHook = func(ctx context.Context) {
		if len(n.commits) != 1 {
			return
		}
		env.ChanOffer(n.m.mainUpdateStateChannel, &blockWithProof{block: syncBlock})
		// the main loop takes the update, cancels, forwards, collects garbage again and waits for more events
		parked = env.RunUntilParked(func() { n.m.run(context.Background()) })
		ctxSeen = ctx.Err() != nil
	}
	b1 := &stub.Block{H: 1, Tag: 0x21, ProposalOK: true}
	out0 := len(n.comm.Out)
	if me == 0 {
		wd.honestRound(1, 0)
	} else {
		roundWith(n, me, wd.net, 1, b1)
	}
	env.Assert("C14.setup.committed", len(n.commits) == 1)
	env.Assert("C14.setup.mainloop_parked", parked == 2)
	env.Assert("C15.commit_ctx_released_by_sync", ctxSeen)
	env.Assert("C14.commit_callback_released_by_sync", ctxSeen)
	// the window before the worker takes the queued sync: the state's height (which the filter uses to route
	// messages to the current term) is the height of the last announced round, and a message of the next height
	// that arrives now is not handled by the term of height 1
	wd.checkHeightIsAnnouncedRound()
	ev0 := len(n.st.Events)
	net2 := newVNet(wd.reg, wd.net.committee, vInstance, n.commits[0].proof)
	if me != 0 {
		n.deliver(net2.ppm(0, 2, 0, &stub.Block{H: 2, Tag: 0x23, ProposalOK: true}).ToConsensusRawMessage())
	}
	n.deliver(net2.pm(3, 2, 0, primitives.BlockHash{0x23}).ToConsensusRawMessage())
	last := n.rounds[len(n.rounds)-1].height
	for _, e := range n.st.Events[ev0:] {
		env.Assert("C17.only_own_height", e.Msg.BlockHeight() == last)
	}
	// the worker loop now takes the pending sync from its channel
	if env.ChanBuffered(n.m.worker.workerUpdateStateChannel) == 1 {
		msg := <-n.m.worker.workerUpdateStateChannel
		n.m.worker.handleUpdateState(msg)
	}
	env.Assert("C14.sync_takes_effect", uint64(n.m.state.Height()) == b+1)
	for _, s := range n.comm.Out[out0:] {
		if pp, ok := s.Msg.(*interfaces.PreprepareMessage); ok {
			// (a sync of exactly the block being committed is overtaken by the commit itself: the node then enters
			// height 2 through its own commit and may lead it)
			env.Assert("C14.no_first_leader_proposal", env.Or(pp.View() != 0, env.Or(pp.BlockHeight() <= 1, env.And(b == 1, pp.BlockHeight() == 2))))
		}
	}
	for _, r := range n.rounds {
		env.Assert("C14.no_round_between", env.Or(r.height <= 1, uint64(r.height) == b+1))
	}
	env.Reach("C14.sync_during_commit")
}

// checkHeightIsAnnouncedRound: the node's state height is the height of the round it announced last (the term it
// is running); a state that moved on without a term would make the height filter hand messages to the wrong term.
func (wd *vWorld) checkHeightIsAnnouncedRound() {
	n := wd.n
	if len(n.rounds) == 0 {
		return
	}
	last := n.rounds[len(n.rounds)-1].height
	env.Assert("C13.state_height_is_announced_round", n.m.state.Height() == last)
	env.Assert("C17.state_height_is_term_height", n.m.state.Height() == last)
}

// C13_CommitThenPrepared: the term survives its own commit (the commit callback fails, so no next round starts).
// COMMITs of view 1 for the same block arrived early (honest reordering: peers that already moved on) and are
// stored. After the commit in view 0 the node times out, adopts the honest locked NEW_VIEW of view 1 and becomes
// prepared there, optionally receiving the view-1 COMMITs only now. However the pieces are ordered, the height is
// handed to the commit callback once.
func C13_CommitThenPrepared() {
	me := env.Param("me") // 2 or 3 (follower in views 0 and 1)
	wd := newWorld(me, paramWeights())
	n, net := wd.n, wd.net
	n.commitErr = env.NondetBool("commit_callback_fails")
	n.commitPanics = env.ParamOr("commit_panics", 0) == 1 // the callback fails by panicking (recovered by the worker's handler)
	g := &stub.Block{H: 1, Tag: 0x21, ProposalOK: true}
	hash := stub.HashOf(g)
	early := env.NondetBool("view1_commits_arrive_early")
	commits1 := func() {
		for _, i := range othersOf(me) {
			n.m.worker.handleRawMessage(net.cm(i, 1, 1, hash).ToConsensusRawMessage())
		}
	}
	n.deliver(net.ppm(0, 1, 0, g).ToConsensusRawMessage())
	for _, i := range othersOf(0, me) {
		n.deliver(net.pm(i, 1, 0, hash).ToConsensusRawMessage())
	}
	if early {
		commits1()
	}
	for _, i := range othersOf(me) {
		n.m.worker.handleRawMessage(net.cm(i, 1, 0, hash).ToConsensusRawMessage()) // the worker's entry point: it recovers a panicking callback
	}
	env.Assert("C13.ctp.committed_in_view0", len(n.commits) == 1)
	if n.m.state.Height() != 1 {
		env.Reach("C13.ctp.moved_on")
		return // the callback succeeded: the next round started, the old term is gone
	}
	n.timeout()
	var votes []*interfaces.ViewChangeMessage
	for _, i := range othersOf(me) {
		votes = append(votes, net.vcm(i, 1, 1, net.prepared(1, 0, g, othersOf(0, i))))
	}
	n.deliver(net.nvm(1, 1, 1, votes, g).ToConsensusRawMessage())
	for _, i := range othersOf(1, me) {
		n.deliver(net.pm(i, 1, 1, hash).ToConsensusRawMessage())
	}
	if !early {
		commits1()
	}
	env.Assert("C13.commit_once_per_round", len(n.commits) == 1)
	for i := 1; i < len(n.commits); i++ {
		env.Assert("C13.commit_cb_increasing", n.commits[i].block != nil && n.commits[i-1].block != nil && n.commits[i].block.H > n.commits[i-1].block.H)
	}
	if v, ok := wd.termPrepared(); ok && v == 1 {
		env.Reach("C13.ctp.prepared_in_view1")
	}
	// C09: the node then leaves view 1 by timeout: it holds a prepared certificate for view 1 (proposal + PREPAREs of
	// quorum weight), so its vote carries that proof and the block, whether or not the term has committed already
	from := len(n.comm.Out)
	n.timeout()
	if vote := lastVote(n, from); vote != nil {
		proof := vote.Content().SignedHeader().PreparedProof()
		has := proof != nil && len(proof.Raw()) > 0
		env.Assert("C09.vc.has_proof_iff_prepared", has)
		if has {
			env.Assert("C09.vc.proof_view_is_latest_prepared", proof.PreprepareBlockRef().View() == 1)
			env.Assert("C09.vc.block", stub.Commits(vote.Block(), proof.PreprepareBlockRef().BlockHash()))
		}
		env.Reach("C09.ctp.voted")
	}
}

// C14_SyncDuringProposal: the node is the first leader of height 1 and its worker is inside a long
// RequestNewBlockProposal (an SPI call that waits on its context). Meanwhile the real main loop handles first a
// STALE UpdateState (a block below the current height, optional) and then UpdateState(block b >= 1). The context the
// worker waits on must be cancelled by the newest sync, the stale one must change nothing, and when the SPI call
// returns the worker takes the sync and moves to height b+1 without having proposed.
func C14_SyncDuringProposal() {
	wd := newWorldStopped(0, equalWeights(4))
	n := wd.n
	n.commitErr = false
	b := env.NondetU64("sync_h")
	env.Assume(b >= 1 && b < 1<<62)
	staleFirst := env.NondetBool("stale_sync_first")
	parked := -1
	released := false
	n.bu.Interfere = func(ctx context.Context, where string) {
		if where != "RequestNewBlockProposal" || parked != -1 {
			return
		}
		if staleFirst {
			env.ChanOffer(n.m.mainUpdateStateChannel, &blockWithProof{block: nil}) // height 0: stale
		}
		env.ChanOffer(n.m.mainUpdateStateChannel, &blockWithProof{block: &stub.Block{H: primitives.BlockHeight(b)}})
		parked = env.RunUntilParked(func() { n.m.run(context.Background()) })
		released = ctx.Err() != nil
	}
	n.start(nil, nil, true)
	env.Assert("C14.setup.mainloop_parked", parked == 2)
	env.Assert("C14.long_spi_released_by_newest_sync", released)
	env.Assert("C14.all_updates_received", env.ChanPending(n.m.mainUpdateStateChannel) == 0)
	for _, s := range n.comm.Out {
		_, isPP := s.Msg.(*interfaces.PreprepareMessage)
		env.Assert("C15.spi.no_send_after_cancel", !isPP)
	}
	for env.ChanBuffered(n.m.worker.workerUpdateStateChannel) > 0 {
		n.m.worker.handleUpdateState(<-n.m.worker.workerUpdateStateChannel)
	}
	env.Assert("C14.sync_takes_effect", uint64(n.m.state.Height()) == b+1)
	env.Reach("C14.sync_during_proposal")
}

// C19_StaleTrigger: "re-arming for another pair guarantees that no trigger of the old pair is acted upon", on the
// consuming side. The node leaves view 0 through a genuine NEW_VIEW of view 1 (or by `timeouts` election timeouts);
// a trigger that is still in flight - symbolic (height, view) other than the node's current position, carrying the
// callback that was registered for view 0 - is then read by one iteration of the real WorkerLoop.Run (channel
// model). It must not be acted upon: the view stays, no VIEW_CHANGE is sent. A trigger for the current position,
// carrying the current registration, is acted upon.
func C19_StaleTrigger() {
	const me = 3
	wd := newWorld(me, equalWeights(4))
	n, net := wd.n, wd.net
	old := n.el.Last() // registered for (1,0)
	env.Assume(old != nil && old.V == 0)
	if env.Param("by_new_view") == 1 {
		var votes []*interfaces.ViewChangeMessage
		for _, i := range othersOf(me) {
			votes = append(votes, net.vcm(i, 1, 1, nil))
		}
		n.deliver(net.nvm(1, 1, 1, votes, &stub.Block{H: 1, Tag: 0x27, ProposalOK: true}).ToConsensusRawMessage())
	} else {
		n.timeout()
	}
	env.Assume(n.m.state.View() == 1)
	stale := env.NondetBool("trigger_is_stale")
	cb := n.el.Last()
	th, tv := uint64(1), uint64(1)
	if stale {
		th, tv = env.NondetU64("th"), env.NondetU64("tv")
		env.Assume(!(th == 1 && tv == 1))
		cb = old
	}
	trig := &interfaces.ElectionTrigger{Hv: state.NewHeightView(primitives.BlockHeight(th), primitives.View(tv)), MoveToNextLeader: func() { cb.Cb(cb.H, cb.V, nil) }}
	n.m.worker.electionChannel <- trig
	out := len(n.comm.Out)
	ctx := env.CancelWhenIdle()
	p := env.Catch(func() { n.m.worker.Run(ctx) })
	env.Assert("C19.worker.no_panic", p == 0)
	sentVote := false
	for _, sm := range n.comm.Out[out:] {
		if _, ok := sm.Msg.(*interfaces.ViewChangeMessage); ok {
			sentVote = true
		}
	}
	if stale {
		env.Assert("C19.stale_trigger_ignored", n.m.state.View() == 1 && !sentVote)
		env.Reach("C19.stale.done")
	} else {
		env.Assert("C19.current_trigger_acted_upon", n.m.state.View() == 2 && sentVote)
		env.Reach("C19.current.done")
	}
}
