package leanhelix

import (
	"context"
	"math"

	"github.com/orbs-network/lean-helix-go/services/interfaces"
	"github.com/orbs-network/lean-helix-go/spec/types/go/primitives"
	"github.com/orbs-network/lean-helix-go/state"
	env "github.com/orbs-network/lean-helix-go/zzverifenv"
	stub "github.com/orbs-network/lean-helix-go/zzverifstub"
)

func init() {
	env.Register("C15_SPI", C15_SPI)
	env.Register("C15_MainLoop", C15_MainLoop)
}

type spiRec struct {
	calls     int
	ctx       context.Context
	cancelled bool // ctx.Err() != nil when the SPI call returns
	where     string
	// the first call that returned under a cancelled context, and whether that call failed
	firstCancelledCall   int
	failedWhenCancelled  bool
}

// interference: what the main loop may do while the worker is blocked inside an SPI call
func (wd *vWorld) interfere(rec *spiRec) func(ctx context.Context, where string) {
	return func(ctx context.Context, where string) {
		rec.calls++
		rec.ctx = ctx
		rec.where = where
		switch env.Choice("interfere", 3) {
		case 1:
			xh, xv := env.NondetU64("xh"), env.NondetU64("xv")
			wd.n.m.state.Contexts.CancelOlderThan(state.NewHeightView(primitives.BlockHeight(xh), primitives.View(xv)))
		case 2:
			wd.n.m.state.Contexts.Shutdown()
		}
		rec.cancelled = ctx.Err() != nil
		if rec.cancelled && rec.firstCancelledCall == 0 {
			rec.firstCancelledCall = rec.calls
		}
	}
}

// newWorldStopped: like newWorld but the node has not entered height 1 yet.
func newWorldStopped(me int, w []uint64) *vWorld {
	wd := &vWorld{reg: stub.NewRegistry(), me: me, H: 1}
	committee := vCommittee(len(w), w)
	wd.net = newVNet(wd.reg, committee, vInstance, nil)
	wd.n = newVNode(wd.reg, committee, me, vInstance)
	wd.n.commitErr = true
	wd.ref = newRefCommittee(w)
	return wd
}

// C15_SPI: every blocking SPI call site is executed with a stub that may cancel contexts (symbolic
// CancelOlderThan argument, or Shutdown) while the call is in progress.
func C15_SPI() {
	site := env.Param("site")
	rec := &spiRec{}
	var wd *vWorld
	var want context.Context
	var s0 vSnap
	blk := &stub.Block{H: 1, Tag: 0x21, ProposalOK: true}
	switch site {
	case 0: // startTerm as first leader: RequestNewBlockProposal
		wd = newWorldStopped(0, equalWeights(4))
		wd.n.bu.Interfere = wd.interfere(rec)
		want, _ = wd.n.m.state.Contexts.For(state.NewHeightView(1, 0))
		s0 = wd.n.snap()
		wd.n.start(nil, nil, true)
	case 1: // HandlePrePrepare: ValidateBlockProposal
		wd = newWorld(1, equalWeights(4))
		wd.n.bu.Interfere = wd.interfere(rec)
		want, _ = wd.n.m.state.Contexts.For(state.NewHeightView(1, 0))
		s0 = wd.n.snap()
		wd.n.deliver(wd.net.ppm(0, 1, 0, blk).ToConsensusRawMessage())
	case 6: // HandlePrePrepare for a PREPREPARE of the next view (its leader is early): context of the message's position
		wd = newWorld(2, equalWeights(4))
		wd.n.bu.Interfere = wd.interfere(rec)
		want, _ = wd.n.m.state.Contexts.For(state.NewHeightView(1, 1))
		s0 = wd.n.snap()
		wd.n.deliver(wd.net.ppm(1, 1, 1, blk).ToConsensusRawMessage())
		env.Assert("C15.spi.called", rec.calls == 1)
		if rec.calls == 1 {
			env.Assert("C15.spi.ctx_is_current", rec.ctx == want)
			env.Reach("C15.spi.future_view_proposal")
		}
		return
	case 2: // onElectedByViewChange with no locked vote: RequestNewBlockProposal
		wd = newWorld(1, equalWeights(4))
		wd.n.timeout()
		wd.n.bu.Interfere = wd.interfere(rec)
		want, _ = wd.n.m.state.Contexts.For(state.NewHeightView(1, 1))
		s0 = wd.n.snap()
		wd.n.deliver(wd.net.vcm(2, 1, 1, nil).ToConsensusRawMessage())
		s0.events++ // the first vote is stored before the election completes
		wd.n.deliver(wd.net.vcm(3, 1, 1, nil).ToConsensusRawMessage())
		s0.events++
	case 3: // HandleNewView with a fresh proposal: ValidateBlockProposal
		wd = newWorld(2, equalWeights(4))
		wd.n.timeout()
		out := len(wd.n.comm.Out)
		wd.n.bu.Interfere = wd.interfere(rec)
		want, _ = wd.n.m.state.Contexts.For(state.NewHeightView(1, 1))
		s0 = wd.n.snap()
		_ = out
		votes := []*interfaces.ViewChangeMessage{wd.net.vcm(0, 1, 1, nil), wd.net.vcm(1, 1, 1, nil), wd.net.vcm(3, 1, 1, nil)}
		wd.n.deliver(wd.net.nvm(1, 1, 1, votes, blk).ToConsensusRawMessage())
	case 4: // requestOrderedCommitteePersist: RequestOrderedCommittee failing, then cancelled or succeeding
		wd = newWorldStopped(0, equalWeights(4))
		fails := env.Choice("fails", 3)
		inner := wd.interfere(rec)
		wd.n.mem.Interfere = func(ctx context.Context, where string) {
			wd.n.mem.FailOrdered = rec.calls < fails
			inner(ctx, where)
			if rec.firstCancelledCall == rec.calls {
				rec.failedWhenCancelled = wd.n.mem.FailOrdered
			}
		}
		want, _ = wd.n.m.state.Contexts.For(state.NewHeightView(1, primitives.View(math.MaxUint64)))
		s0 = wd.n.snap()
		wd.n.start(nil, nil, true)
		// the polling loop stops as soon as its context is cancelled: no further SPI call after the first one that
		// returned (with an error) under a cancelled context
		if rec.firstCancelledCall > 0 && rec.failedWhenCancelled {
			env.Assert("C15.spi.committee_poll_stops", wd.n.mem.OrderedCalls == rec.firstCancelledCall)
		}
		if rec.cancelled && wd.n.mem.FailOrdered {
			env.Assert("C15.spi.no_send_after_cancel", len(wd.n.comm.Out) == s0.out)
			env.Reach("C15.committee_cancelled")
		}
		env.Assert("C15.spi.ctx_is_current", rec.calls == 0 || rec.ctx == want)
		return
	case 5: // commit callback: term-level context
		wd = newWorld(1, equalWeights(4))
		want, _ = wd.n.m.state.Contexts.For(state.NewHeightView(1, primitives.View(math.MaxUint64)))
		wd.prefix(5)
		env.Assert("C15.commit.happened", len(wd.n.commits) == 1)
		if len(wd.n.commits) == 1 {
			env.Assert("C15.spi.ctx_is_current", wd.n.commits[0].ctx == want)
			env.Assert("C15.commit.ctx_live", wd.n.commits[0].ctx.Err() == nil)
			env.Reach("C15.commit_ctx")
		}
		return
	}
	env.Assert("C15.spi.called", rec.calls == 1)
	if rec.calls != 1 {
		return
	}
	env.Assert("C15.spi.ctx_is_current", rec.ctx == want)
	n := wd.n
	if rec.cancelled {
		// results produced under a cancelled context do not lead to a proposal / vote being broadcast or stored
		env.Assert("C15.spi.no_send_after_cancel", len(n.comm.Out) == s0.out)
		env.Assert("C15.spi.no_store_after_cancel", len(n.st.Events) == s0.events)
		if site == 3 {
			// C07: a fresh proposal whose consumer validation was aborted (cancelled context, whatever the SPI
			// returned) is not a consumer-validated block: the NEW_VIEW must not be adopted
			env.Assert("C07.fresh.validation_not_aborted", len(n.comm.Out) == s0.out && len(n.st.Events) == s0.events)
		}
		env.Reach("C15.spi.cancelled")
	} else {
		env.Assert("C15.spi.proceeds_when_live", len(n.comm.Out) > s0.out)
		env.Reach("C15.spi.live")
	}
}

// C15_MainLoop: one event handled by the real MainLoop.run in the channel model. The harness plays the
// worker goroutine: at the moment the event is forwarded to the worker's channel it checks which of the
// previously issued contexts are cancelled.
func C15_MainLoop() {
	event := env.Param("event") // 0 election trigger, 1 sync
	wd := newWorld(1, equalWeights(4))
	n := wd.n
	cs := n.m.state.Contexts
	type issued struct {
		h, v uint64
		ctx  context.Context
	}
	var iss []*issued
	for _, hv := range [][2]uint64{{1, 0}, {1, 1}, {1, 5}, {2, 0}, {7, 3}} {
		c, err := cs.For(state.NewHeightView(primitives.BlockHeight(hv[0]), primitives.View(hv[1])))
		if err == nil {
			iss = append(iss, &issued{hv[0], hv[1], c})
		}
	}
	forwarded := false
	var th, tv uint64 // everything older than (th,tv) must be cancelled before the forward
	check := func(v interface{}) {
		forwarded = true
		for _, is := range iss {
			older := env.Or(is.h < th, env.And(is.h == th, is.v < tv))
			env.Assert("C15.main.cancel_before_forward", env.Implies(older, is.ctx.Err() != nil))
			env.Assert("C15.main.newer_untouched", env.Implies(env.Not(older), is.ctx.Err() == nil))
		}
	}
	ctx := env.CancelWhenIdle()
	if event == 0 && env.ParamOr("parked_sync", 0) == 1 {
		// a late sync that the worker will drop as stale is still parked in the worker's one-slot channel
		n.m.worker.workerUpdateStateChannel <- &blockWithProof{block: nil}
	}
	if event == 0 {
		eh, ev := env.NondetU64("eh"), env.NondetU64("ev")
		env.Assume(ev < math.MaxUint64)
		th, tv = eh, ev+1
		trig := &interfaces.ElectionTrigger{MoveToNextLeader: func() {}, Hv: state.NewHeightView(primitives.BlockHeight(eh), primitives.View(ev))}
		env.ChanOnRecv(n.m.worker.electionChannel, check)
		env.ChanOffer(n.el.Channel, trig)
	} else {
		b := env.NondetU64("b")
		env.Assume(b < math.MaxUint64)
		th, tv = b+1, 0
		env.ChanOnRecv(n.m.worker.workerUpdateStateChannel, check)
		env.ChanOffer(n.m.mainUpdateStateChannel, &blockWithProof{block: &stub.Block{H: primitives.BlockHeight(b)}})
	}
	p := env.Catch(func() { n.m.run(ctx) })
	env.Assert("C15.main.no_panic_no_block", p == 0)
	// a trigger / sync about a position that is not stale must be forwarded
	stale := env.Or(th < 1, false) // the only watermark before the event is (1,0) from the GC of height 1
	env.Assert("C15.main.forwarded_unless_stale", env.Implies(env.Not(stale), forwarded))
	// after the loop exits everything is shut down
	for _, is := range iss {
		env.Assert("C15.shutdown.all", is.ctx.Err() != nil)
	}
	_, err := cs.For(state.NewHeightView(100, 0))
	env.Assert("C15.shutdown.no_new_contexts", err != nil)
	if forwarded {
		env.Reach("C15.main.forwarded")
	}
}
