package leanhelix

import (
	"github.com/orbs-network/lean-helix-go/services/interfaces"
	"github.com/orbs-network/lean-helix-go/services/messagesfactory"
	"github.com/orbs-network/lean-helix-go/services/rawmessagesfilter"
	"github.com/orbs-network/lean-helix-go/spec/types/go/primitives"
	"github.com/orbs-network/lean-helix-go/spec/types/go/protocol"
	"github.com/orbs-network/lean-helix-go/state"
	env "github.com/orbs-network/lean-helix-go/zzverifenv"
	stub "github.com/orbs-network/lean-helix-go/zzverifstub"
)

func init() {
	env.Register("C17_Filter", C17_Filter)
	env.Register("C17_Flood", C17_Flood)
	env.Register("C17_MainLoopForward", C17_MainLoopForward)
	env.Register("C18_NodeLeader", C18_NodeLeader)
	env.Register("C17_LeaveCommittee", C17_LeaveCommittee)
}

type c17Msg struct {
	tag        int
	height     uint64
	instanceOK bool
	fromMe     bool
	curAtRecv  uint64 // node height when it was received
	cacheable  bool   // accepted for caching: future height, right instance, not own
	delivered  bool
}

type c17Handler struct {
	st       *state.State
	msgs     []*c17Msg
	lastTag  int // tag of the last delivered message
	lastH    uint64
	anyDeliv bool
	// the handler may move the node to a later view of the same height while it handles a message
	viewMoves bool
}

func (h *c17Handler) HandleConsensusMessage(message interfaces.ConsensusMessage) error {
	tag := int(message.(*interfaces.PrepareMessage).Content().SignedHeader().BlockHash()[0]) // concrete: the harness numbers the messages in the hash byte
	m := h.msgs[tag]
	cur := uint64(h.st.Height())
	env.Assert("C17.only_own_height", uint64(message.BlockHeight()) == cur)
	env.Assert("C17.msg_is_the_received_one", m.height == uint64(message.BlockHeight()))
	env.Assert("C17.instance", m.instanceOK)
	env.Assert("C17.not_own", !m.fromMe)
	env.Assert("C17.at_most_once", !m.delivered)
	env.Assert("C17.past_dropped", m.height >= m.curAtRecv)
	// arrival order among the messages of one height
	if h.anyDeliv {
		env.Assert("C17.order", env.Implies(h.lastH == cur, h.lastTag < tag))
	}
	if m.curAtRecv < cur {
		env.Reach("C17.delivered_from_cache")
	}
	m.delivered = true
	h.lastTag, h.lastH, h.anyDeliv = tag, cur, true
	if h.viewMoves && env.NondetBool("handler_moves_to_next_view") {
		// as a real term does on a NEW_VIEW or an electing VIEW_CHANGE: a later view of the SAME height
		h.st.SetView(h.st.View() + 1)
	}
	return nil
}

// C17_Filter: k operations, each a symbolic choice of "receive a message with symbolic height /
// instance / sender" or "advance to a symbolic larger height and drain the cache".
func C17_Filter() {
	k := env.Param("ops")
	me := primitives.MemberId{1}
	const instance = primitives.InstanceId(7)
	st := state.NewState()
	h0 := env.NondetU64("h0")
	env.Assume(h0 >= 1)
	st.SetHeightAndResetView(primitives.BlockHeight(h0))
	f := rawmessagesfilter.NewConsensusMessageFilter(instance, me, stub.NopLogger{}, st)
	rec := &c17Handler{st: st, viewMoves: env.ParamOr("viewmoves", 0) == 1}
	f.ConsumeCacheMessages(rec)
	reg := stub.NewRegistry()
	higherCached := uint64(0) // max height of any message accepted for caching so far (0 = none)

	for i := 0; i < k; i++ {
		cur := uint64(st.Height())
		if env.Choice("op", 2) == 0 {
			// receive
			mh := env.NondetU64("mh")
			inst := primitives.InstanceId(env.NondetU64("inst"))
			sender := env.NondetU8("sender")
			fac := messagesfactory.NewMessageFactory(inst, stub.NewKeyManager(reg, primitives.MemberId{sender}), primitives.MemberId{sender}, 0)
			// same kind, a view from {0,1} and possibly the same claimed sender as an earlier message: the filter sits
			// in front of all authentication and must not let one message stand in for another
			mv := primitives.View(0)
			if nv := env.ParamOr("views", 1); nv > 1 {
				mv = primitives.View(env.Choice("mview", nv))
			}
			pm := fac.CreatePrepareMessage(primitives.BlockHeight(mh), mv, primitives.BlockHash{byte(len(rec.msgs))})
			m := &c17Msg{tag: len(rec.msgs), height: mh, instanceOK: inst == instance, fromMe: sender == 1, curAtRecv: cur}
			m.cacheable = env.And(m.instanceOK, env.And(!m.fromMe, mh > cur))
			rec.msgs = append(rec.msgs, m)
			f.HandleConsensusRawMessage(pm.ToConsensusRawMessage())
			// a current-height, right-instance, foreign message is delivered immediately
			env.Assert("C17.current_delivered_now", env.Implies(env.And(m.instanceOK, env.And(!m.fromMe, mh == cur)), m.delivered))
			env.Assert("C17.not_current_not_delivered_now", env.Implies(mh != cur, !m.delivered))
			higherCached = env.IteU64(env.And(m.cacheable, mh > higherCached), mh, higherCached)
		} else {
			// advance to a larger height and start its term
			nh := env.NondetU64("nh")
			env.Assume(nh > cur)
			st.SetHeightAndResetView(primitives.BlockHeight(nh))
			f.ConsumeCacheMessages(rec)
			// guaranteed delivery: if no message for a height above nh was accepted for caching before
			// this moment, every cached message of height nh is delivered now
			for _, m := range rec.msgs {
				must := env.And(m.cacheable, env.And(m.height == nh, higherCached <= nh))
				env.Assert("C17.guaranteed_delivery", env.Implies(must, m.delivered))
			}
			env.Reach("C17.advanced")
		}
	}
	// nothing is ever delivered for a height the node is not in: already asserted at delivery time.
	for _, m := range rec.msgs {
		if m.delivered {
			env.Reach("C17.some_delivery")
		}
	}
}

// C17_Flood: `count` messages of distinct senders for ONE future height (a large committee whose traffic arrives
// early, or a member flooding), with symbolic heights; then the node starts that height: every one of them is
// delivered, in arrival order. The cache has no per-height capacity in the statement.
func C17_Flood() {
	count := env.Param("count")
	me := primitives.MemberId{1}
	const instance = primitives.InstanceId(7)
	st := state.NewState()
	h0 := env.NondetU64("h0")
	env.Assume(h0 >= 1 && h0 < 1<<62)
	st.SetHeightAndResetView(primitives.BlockHeight(h0))
	f := rawmessagesfilter.NewConsensusMessageFilter(instance, me, stub.NopLogger{}, st)
	rec := &c17Handler{st: st}
	f.ConsumeCacheMessages(rec)
	reg := stub.NewRegistry()
	nh := env.NondetU64("nh")
	env.Assume(nh > h0 && nh < 1<<62)
	fac := messagesfactory.NewMessageFactory(instance, stub.NewKeyManager(reg, primitives.MemberId{2}), primitives.MemberId{2}, 0)
	for i := 0; i < count; i++ {
		pm := fac.CreatePrepareMessage(primitives.BlockHeight(nh), 0, primitives.BlockHash{byte(i)})
		rec.msgs = append(rec.msgs, &c17Msg{tag: i, height: nh, instanceOK: true, curAtRecv: h0, cacheable: true})
		f.HandleConsensusRawMessage(pm.ToConsensusRawMessage())
	}
	st.SetHeightAndResetView(primitives.BlockHeight(nh))
	f.ConsumeCacheMessages(rec)
	for _, m := range rec.msgs {
		env.Assert("C17.guaranteed_delivery", m.delivered)
	}
	env.Reach("C17.flood.done")
}

// C17_MainLoopForward: the step before the filter. A genuine PREPARE with a symbolic (any) height and instance is
// handed to HandleConsensusMessage and taken by one iteration of the real MainLoop.run (channel model); the main
// loop must pass it on to the worker whatever its height (the height filter and its cache live behind it). The
// worker then handles it; after a sync to exactly the message's height the cached message reaches the new term.
func C17_MainLoopForward() {
	const me = 1
	wd := newWorld(me, equalWeights(4))
	n := wd.n
	h := primitives.BlockHeight(env.NondetU64("height"))
	env.Assume(h >= 1 && h < 1<<62)
	blk := &stub.Block{H: h, Tag: 0x23, ProposalOK: true}
	// the main loop's exit shuts its registry of contexts down, so the worker side is judged on a twin node that
	// was not shut down; the message is signed in the twin's world (the main loop does not verify signatures)
	twin := newWorld(me, equalWeights(4))
	raw := twin.net.ppm(0, h, 0, blk).ToConsensusRawMessage()
	ctx := env.CancelWhenIdle()
	env.ChanOffer(n.m.messagesChannel, raw)
	p := env.Catch(func() { n.m.run(ctx) })
	env.Assert("C17.main.no_panic", p == 0)
	env.Assert("C17.main.forwards_any_height", env.ChanBuffered(n.m.worker.MessagesChannel) == 1)
	if env.ChanBuffered(n.m.worker.MessagesChannel) != 1 {
		return
	}
	fw := <-n.m.worker.MessagesChannel
	pendingSync := h >= 2 && env.NondetBool("sync_already_waiting_in_worker_slot")
	if pendingSync {
		// the sync to h-1 was forwarded while the worker was busy and still sits in its one-slot channel when the
		// worker dequeues the message: the message is handled (cached) all the same
		twin.n.m.state.Contexts.CancelOlderThan(state.NewHeightView(h, 0))
		twin.n.m.worker.workerUpdateStateChannel <- &blockWithProof{block: &stub.Block{H: h - 1}}
	}
	twin.n.m.worker.handleRawMessage(fw)
	if h >= 2 {
		out := len(twin.n.comm.Out)
		if pendingSync {
			twin.n.m.worker.handleUpdateState(<-twin.n.m.worker.workerUpdateStateChannel)
		} else {
			twin.sync(&stub.Block{H: h - 1})
		}
		env.Assert("C17.guaranteed_delivery", len(twin.n.comm.Out) > out) // the cached proposal is answered with a PREPARE
		env.Reach("C17.main.future")
	}
}

// C18_NodeLeader: the leader function as the whole node uses it. The committee has a zero-weight member
// (weights 3,1,0,4) or the configured weights. The node times out t times; a fully symbolic PREPREPARE for its
// current view is stored only if its sender is the member at position (view mod committee size) of the ordered
// committee the membership SPI returned, and every VIEW_CHANGE the node sends is addressed to that member.
func C18_NodeLeader() {
	me := env.Param("me")
	t := env.Param("timeouts")
	wd := newWorld(me, paramWeights())
	n, ref := wd.n, wd.ref
	for i := 0; i < t; i++ {
		n.timeout()
	}
	v := n.m.state.View()
	for _, s := range n.comm.Out {
		if vc, ok := s.Msg.(*interfaces.ViewChangeMessage); ok {
			env.Assert("C18.vote_addressed_to_leader", len(s.To) == 1 && len(s.To[0]) == 1 && s.To[0][0] == ref.leader(vc.View()))
		}
	}
	hdr := newSymRef("m")
	snd := newSymSender(wd.reg, "s", uint64(hdr.height), hdr.raw)
	c := (&protocol.PreprepareContentBuilder{SignedHeader: hdr.b, Sender: snd.b}).Build()
	ev := len(n.st.Events)
	nval := len(n.bu.Validations)
	n.deliver(interfaces.NewPreprepareMessage(c, symBlock("blk")).ToConsensusRawMessage())
	for _, call := range n.bu.Validations[nval:] {
		env.Assert("C18.consumer_told_the_leader", len(call.Member) == 1 && call.Member[0] == ref.leader(hdr.view))
	}
	if len(n.st.Events) > ev {
		env.Assert("C18.proposal_from_leader_of_view", snd.id == ref.leader(hdr.view))
		if hdr.view == v {
			env.Reach("C18.node.accepted_current_view")
		}
		return
	}
	// a genuine proof-less NEW_VIEW for a later view (1..3 views ahead) from that view's leader: the consumer is told
	// the leader of the NEW_VIEW's view, whatever view the node itself is still in
	nvv := v + 1 + primitives.View(env.Choice("nv_views_ahead", 3))
	ldr := int(uint64(nvv) % 4)
	if ldr == me {
		return
	}
	var votes []*interfaces.ViewChangeMessage
	for _, i := range othersOf(me) {
		votes = append(votes, wd.net.vcm(i, 1, nvv, nil))
	}
	nval = len(n.bu.Validations)
	n.deliver(wd.net.nvm(ldr, 1, nvv, votes, &stub.Block{H: 1, Tag: 0x27, ProposalOK: true}).ToConsensusRawMessage())
	// (the three other members' votes must reach the quorum weight for the NEW_VIEW to be admissible at all)
	voterIds := []byte{}
	for _, i := range othersOf(me) {
		voterIds = append(voterIds, wd.net.committee[i].Id[0])
	}
	if ref.weight(voterIds, allTrue(len(voterIds))) >= ref.q() {
		env.Assert("C18.nv.validated", len(n.bu.Validations) == nval+1)
	}
	for _, call := range n.bu.Validations[nval:] {
		env.Assert("C18.consumer_told_the_leader", len(call.Member) == 1 && call.Member[0] == ref.leader(nvv))
	}
	if n.m.state.View() == nvv {
		env.Reach("C18.node.adopted_new_view")
	}
}

// C17_LeaveCommittee: the committee changes between heights. The node is a member at height 1 and commits it (or is
// synced past it); at the height it then starts (symbolic) it is NOT in the committee. Messages of that height, one
// cached beforehand and one arriving afterwards, must not reach the protocol logic of the term of height 1 (nor
// any other term): nothing is stored, nothing is sent. When the node later starts a height where it is a member
// again, messages of that height are handled normally.
func C17_LeaveCommittee() {
	const me = 1
	wd := newWorld(me, equalWeights(4))
	n := wd.n
	n.commitErr = false
	full := wd.net.committee
	without := []interfaces.CommitteeMember{full[0], full[2], full[3]}
	outH := primitives.BlockHeight(2)
	bySync := env.NondetBool("leaves_by_sync")
	if bySync {
		outH = primitives.BlockHeight(env.NondetU64("out_height"))
		env.Assume(outH >= 2 && outH < 1<<61)
	}
	n.mem.OrderedCommittee = func(h primitives.BlockHeight) []interfaces.CommitteeMember {
		if h == outH {
			return without
		}
		return full
	}
	n.st.OnStore = func(e *stub.StoreEvent) { e.StateHeight = n.m.state.Height() }
	blk := &stub.Block{H: outH, Tag: 0x23, ProposalOK: true}
	early := wd.net.ppm(0, outH, 0, blk).ToConsensusRawMessage()
	n.m.worker.handleRawMessage(early) // cached: a future height
	if bySync {
		wd.sync(&stub.Block{H: outH - 1})
	} else {
		roundWith(n, me, wd.net, 1, &stub.Block{H: 1, Tag: 0x21, ProposalOK: true})
	}
	env.Assert("C17.leave.at_out_height", n.m.state.Height() == outH)
	ev, out := len(n.st.Events), len(n.comm.Out)
	n.m.worker.handleRawMessage(wd.net.pm(2, outH, 0, stub.HashOf(blk)).ToConsensusRawMessage())
	n.m.worker.handleRawMessage(wd.net.ppm(0, outH, 0, blk).ToConsensusRawMessage())
	for _, e := range n.st.Events {
		env.Assert("C17.only_own_height", e.Msg.BlockHeight() == e.StateHeight)
	}
	env.Assert("C17.leave.not_member_not_involved", len(n.st.Events) == ev && len(n.comm.Out) == out)
	wd.checkHeightIsAnnouncedRound()
	// back in the committee at the next height
	wd.sync(&stub.Block{H: outH})
	out = len(n.comm.Out)
	blk2 := &stub.Block{H: outH + 1, Tag: 0x25, ProposalOK: true}
	n.m.worker.handleRawMessage(wd.net.ppm(0, outH+1, 0, blk2).ToConsensusRawMessage())
	env.Assert("C17.leave.member_again", len(n.comm.Out) > out)
	env.Reach("C17.leave.done")
}
