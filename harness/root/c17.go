package leanhelix

import (
	"github.com/orbs-network/lean-helix-go/services/interfaces"
	"github.com/orbs-network/lean-helix-go/services/messagesfactory"
	"github.com/orbs-network/lean-helix-go/services/rawmessagesfilter"
	"github.com/orbs-network/lean-helix-go/spec/types/go/primitives"
	"github.com/orbs-network/lean-helix-go/state"
	env "github.com/orbs-network/lean-helix-go/zzverifenv"
	stub "github.com/orbs-network/lean-helix-go/zzverifstub"
)

func init() {
	env.Register("C17_Filter", C17_Filter)
}

type c17Msg struct {
	tag        int
	height     uint64
	instanceOK bool
	fromMe     bool
	curAtRecv  uint64 // node height when it was received
	cacheable  bool   // accepted for caching: future height, right instance, not own
	delivered  bool
}

type c17Handler struct {
	st       *state.State
	msgs     []*c17Msg
	lastTag  int // tag of the last delivered message
	lastH    uint64
	anyDeliv bool
}

func (h *c17Handler) HandleConsensusMessage(message interfaces.ConsensusMessage) error {
	tag := int(message.View()) // concrete: the harness numbers the messages in the view field
	m := h.msgs[tag]
	cur := uint64(h.st.Height())
	env.Assert("C17.only_own_height", uint64(message.BlockHeight()) == cur)
	env.Assert("C17.msg_is_the_received_one", m.height == uint64(message.BlockHeight()))
	env.Assert("C17.instance", m.instanceOK)
	env.Assert("C17.not_own", !m.fromMe)
	env.Assert("C17.at_most_once", !m.delivered)
	env.Assert("C17.past_dropped", m.height >= m.curAtRecv)
	// arrival order among the messages of one height
	if h.anyDeliv {
		env.Assert("C17.order", env.Implies(h.lastH == cur, h.lastTag < tag))
	}
	if m.curAtRecv < cur {
		env.Reach("C17.delivered_from_cache")
	}
	m.delivered = true
	h.lastTag, h.lastH, h.anyDeliv = tag, cur, true
	return nil
}

// C17_Filter: k operations, each a symbolic choice of "receive a message with symbolic height /
// instance / sender" or "advance to a symbolic larger height and drain the cache".
func C17_Filter() {
	k := env.Param("ops")
	me := primitives.MemberId{1}
	const instance = primitives.InstanceId(7)
	st := state.NewState()
	h0 := env.NondetU64("h0")
	env.Assume(h0 >= 1)
	st.SetHeightAndResetView(primitives.BlockHeight(h0))
	f := rawmessagesfilter.NewConsensusMessageFilter(instance, me, stub.NopLogger{}, st)
	rec := &c17Handler{st: st}
	f.ConsumeCacheMessages(rec)
	reg := stub.NewRegistry()
	higherCached := uint64(0) // max height of any message accepted for caching so far (0 = none)

	for i := 0; i < k; i++ {
		cur := uint64(st.Height())
		if env.Choice("op", 2) == 0 {
			// receive
			mh := env.NondetU64("mh")
			inst := primitives.InstanceId(env.NondetU64("inst"))
			sender := env.NondetU8("sender")
			fac := messagesfactory.NewMessageFactory(inst, stub.NewKeyManager(reg, primitives.MemberId{sender}), primitives.MemberId{sender}, 0)
			pm := fac.CreatePrepareMessage(primitives.BlockHeight(mh), primitives.View(len(rec.msgs)), primitives.BlockHash{9})
			m := &c17Msg{tag: len(rec.msgs), height: mh, instanceOK: inst == instance, fromMe: sender == 1, curAtRecv: cur}
			m.cacheable = env.And(m.instanceOK, env.And(!m.fromMe, mh > cur))
			rec.msgs = append(rec.msgs, m)
			f.HandleConsensusRawMessage(pm.ToConsensusRawMessage())
			// a current-height, right-instance, foreign message is delivered immediately
			env.Assert("C17.current_delivered_now", env.Implies(env.And(m.instanceOK, env.And(!m.fromMe, mh == cur)), m.delivered))
			env.Assert("C17.not_current_not_delivered_now", env.Implies(mh != cur, !m.delivered))
			higherCached = env.IteU64(env.And(m.cacheable, mh > higherCached), mh, higherCached)
		} else {
			// advance to a larger height and start its term
			nh := env.NondetU64("nh")
			env.Assume(nh > cur)
			st.SetHeightAndResetView(primitives.BlockHeight(nh))
			f.ConsumeCacheMessages(rec)
			// guaranteed delivery: if no message for a height above nh was accepted for caching before
			// this moment, every cached message of height nh is delivered now
			for _, m := range rec.msgs {
				must := env.And(m.cacheable, env.And(m.height == nh, higherCached <= nh))
				env.Assert("C17.guaranteed_delivery", env.Implies(must, m.delivered))
			}
			env.Reach("C17.advanced")
		}
	}
	// nothing is ever delivered for a height the node is not in: already asserted at delivery time.
	for _, m := range rec.msgs {
		if m.delivered {
			env.Reach("C17.some_delivery")
		}
	}
}
