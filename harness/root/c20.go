// C20 harnesses use only the exported API of the repository.
package leanhelix

import (
	"github.com/orbs-network/lean-helix-go/services/interfaces"
	"github.com/orbs-network/lean-helix-go/services/messagesfactory"
	"github.com/orbs-network/lean-helix-go/services/randomseed"
	"github.com/orbs-network/lean-helix-go/spec/types/go/primitives"
	"github.com/orbs-network/lean-helix-go/spec/types/go/protocol"
	env "github.com/orbs-network/lean-helix-go/zzverifenv"
	stub "github.com/orbs-network/lean-helix-go/zzverifstub"
)

func init() {
	env.Register("C20_Simple", C20_Simple)
}

type c20Env struct {
	reg      *stub.Registry
	km       *stub.KeyManager
	f        *messagesfactory.MessageFactory
	instance primitives.InstanceId
	me       primitives.MemberId
	seed     uint64
}

func newC20Env(idLen int) *c20Env {
	e := &c20Env{reg: stub.NewRegistry()}
	e.me = primitives.MemberId(env.NondetBytes("me", idLen))
	e.km = stub.NewKeyManager(e.reg, e.me)
	e.instance = primitives.InstanceId(env.NondetU64("instance"))
	e.seed = env.NondetU64("seed")
	e.f = messagesfactory.NewMessageFactory(e.instance, e.km, e.me, e.seed)
	return e
}

// C20_Simple: PREPREPARE / PREPARE / COMMIT built by the real factory from symbolic field values,
// converted to a raw message and parsed back.
func C20_Simple() {
	idLen := env.Param("idlen")
	hashLen := env.Param("hashlen")
	e := newC20Env(idLen)
	h := primitives.BlockHeight(env.NondetU64("height"))
	v := primitives.View(env.NondetU64("view"))
	hash := primitives.BlockHash(env.NondetBytes("hash", hashLen))
	block := &stub.Block{H: h, Tag: env.NondetU8("tag")}

	kind := env.Choice("kind", 3)
	var msg interfaces.ConsensusMessage
	var wantType protocol.MessageType
	switch kind {
	case 0:
		msg = e.f.CreatePreprepareMessage(h, v, block, hash)
		wantType = protocol.LEAN_HELIX_PREPREPARE
	case 1:
		msg = e.f.CreatePrepareMessage(h, v, hash)
		wantType = protocol.LEAN_HELIX_PREPARE
	default:
		msg = e.f.CreateCommitMessage(h, v, hash)
		wantType = protocol.LEAN_HELIX_COMMIT
	}
	raw := msg.ToConsensusRawMessage()
	back := interfaces.ToConsensusMessage(raw)
	env.Assert("C20.not_nil", back != nil)
	if back == nil {
		return
	}
	env.Assert("C20.type", back.MessageType() == wantType)
	env.Assert("C20.instance", back.InstanceId() == e.instance)
	env.Assert("C20.height", back.BlockHeight() == h)
	env.Assert("C20.view", back.View() == v)
	env.Assert("C20.sender", env.EqBytes(back.SenderMemberId(), e.me))
	env.Assert("C20.raw_equal", env.EqBytes(back.Raw(), msg.Raw()))
	var hdr *protocol.BlockRef
	var snd *protocol.SenderSignature
	switch m := back.(type) {
	case *interfaces.PreprepareMessage:
		hdr, snd = m.Content().SignedHeader(), m.Content().Sender()
		env.Assert("C20.block", m.Block() == interfaces.Block(block))
	case *interfaces.PrepareMessage:
		hdr, snd = m.Content().SignedHeader(), m.Content().Sender()
	case *interfaces.CommitMessage:
		hdr, snd = m.Content().SignedHeader(), m.Content().Sender()
		share := &protocol.SenderSignatureBuilder{MemberId: snd.MemberId(), Signature: primitives.Signature(m.Content().Share())}
		if idLen > 0 { // an empty member id designates the master (aggregated) signature in the KeyManager API
			env.Assert("C20.share_verifies", e.km.VerifyRandomSeed(h, randomseed.RandomSeedToBytes(e.seed), share.Build()) == nil)
		}
	}
	env.Assert("C20.kind_matches", hdr != nil)
	if hdr == nil {
		return
	}
	env.Assert("C20.hash", env.EqBytes(hdr.BlockHash(), hash))
	env.Assert("C20.hdr_fields", env.And(hdr.BlockHeight() == h, env.And(hdr.View() == v, env.And(hdr.InstanceId() == e.instance, hdr.MessageType() == wantType))))
	env.Assert("C20.sig_still_verifies", e.km.VerifyConsensusMessage(hdr.BlockHeight(), hdr.Raw(), snd) == nil)
	// parsing is deterministic
	back2 := interfaces.ToConsensusMessage(raw)
	env.Assert("C20.reparse_equal", env.And(back2 != nil, env.EqBytes(back2.Raw(), back.Raw())))
	// ... and depends on the bytes only, not on the history of the envelope they travel in: the same envelope
	// object (by pointer and as a by-value copy) carrying the content of another message parses as that message
	h2 := primitives.BlockHeight(env.NondetU64("height2"))
	v2 := primitives.View(env.NondetU64("view2"))
	other := e.f.CreateCommitMessage(h2, v2, hash).ToConsensusRawMessage()
	cp := *raw
	raw.Content, raw.Block = other.Content, other.Block
	cp.Content, cp.Block = other.Content, other.Block
	for _, envl := range []*interfaces.ConsensusRawMessage{raw, &cp} {
		m := interfaces.ToConsensusMessage(envl)
		env.Assert("C20.parse_depends_on_bytes_only", m != nil && m.MessageType() == protocol.LEAN_HELIX_COMMIT && m.BlockHeight() == h2 && m.View() == v2)
	}
	env.Reach("C20.simple.done")
}

func u64bytes(v uint64) []byte {
	b := make([]byte, 8)
	for i := 0; i < 8; i++ {
		b[i] = byte(v >> (8 * uint(i)))
	}
	return b
}
