package leanhelix

import (
	"github.com/orbs-network/lean-helix-go/services/blockproof"
	"github.com/orbs-network/lean-helix-go/services/interfaces"
	"github.com/orbs-network/lean-helix-go/services/messagesfactory"
	"github.com/orbs-network/lean-helix-go/services/preparedmessages"
	"github.com/orbs-network/lean-helix-go/spec/types/go/primitives"
	"github.com/orbs-network/lean-helix-go/spec/types/go/protocol"
	env "github.com/orbs-network/lean-helix-go/zzverifenv"
	stub "github.com/orbs-network/lean-helix-go/zzverifstub"
)

func init() {
	env.Register("C20_ViewChange", C20_ViewChange)
	env.Register("C20_NewView", C20_NewView)
	env.Register("C20_BlockProof", C20_BlockProof)
}

type c20Party struct {
	id primitives.MemberId
	km *stub.KeyManager
	f  *messagesfactory.MessageFactory
}

func c20Parties(reg *stub.Registry, instance primitives.InstanceId, k, idLen int, seed uint64) []*c20Party {
	ps := make([]*c20Party, k)
	for i := range ps {
		id := primitives.MemberId(env.NondetBytes("id", idLen))
		km := stub.NewKeyManager(reg, id)
		ps[i] = &c20Party{id: id, km: km, f: messagesfactory.NewMessageFactory(instance, km, id, seed)}
	}
	return ps
}

func c20RefEq(label string, r *protocol.BlockRef, typ protocol.MessageType, inst primitives.InstanceId, h primitives.BlockHeight, v primitives.View, hash primitives.BlockHash) {
	env.Assert(label, env.And(r.MessageType() == typ, env.And(r.InstanceId() == inst, env.And(r.BlockHeight() == h, env.And(r.View() == v, env.EqBytes(r.BlockHash(), hash))))))
}

// builds a VIEW_CHANGE by party 0 with (optionally) a prepared proof of `prepares` PREPAREs by parties 2.., PREPREPARE by party 1
// c20PrepareView / c20NoPreprepare: shapes the factory accepts although no correct node produces them
// (PREPAREs of another view than the PREPREPARE; a proof without PREPREPARE part).
var c20PrepareView func(pv primitives.View) primitives.View
var c20NoPreprepare bool

func c20BuildVote(ps []*c20Party, h primitives.BlockHeight, v, pv primitives.View, hash primitives.BlockHash, block *stub.Block, withProof bool, prepares int) (*interfaces.ViewChangeMessage, *preparedmessages.PreparedMessages) {
	var prepared *preparedmessages.PreparedMessages
	if withProof {
		ppm := ps[1].f.CreatePreprepareMessage(h, pv, block, hash)
		pview := pv
		if c20PrepareView != nil {
			pview = c20PrepareView(pv)
		}
		pms := make([]*interfaces.PrepareMessage, 0, prepares)
		for j := 0; j < prepares; j++ {
			pms = append(pms, ps[2+j].f.CreatePrepareMessage(h, pview, hash))
		}
		if c20NoPreprepare {
			ppm = nil
		}
		prepared = &preparedmessages.PreparedMessages{PreprepareMessage: ppm, PrepareMessages: pms}
		if prepares == 0 {
			prepared.PrepareMessages = nil
		}
	}
	return ps[0].f.CreateViewChangeMessage(h, v, prepared), prepared
}

func c20CheckVoteContent(prefix string, c *protocol.ViewChangeMessageContent, km *stub.KeyManager, voter primitives.MemberId, inst primitives.InstanceId, h primitives.BlockHeight, v, pv primitives.View, hash primitives.BlockHash, ps []*c20Party, withProof bool, prepares int) {
	hdr := c.SignedHeader()
	env.Assert(prefix+".header", env.And(hdr.MessageType() == protocol.LEAN_HELIX_VIEW_CHANGE, env.And(hdr.InstanceId() == inst, env.And(hdr.BlockHeight() == h, hdr.View() == v))))
	env.Assert(prefix+".sender", env.EqBytes(c.Sender().MemberId(), voter))
	env.Assert(prefix+".sig_still_verifies", km.VerifyConsensusMessage(h, hdr.Raw(), c.Sender()) == nil)
	proof := hdr.PreparedProof()
	hasProof := proof != nil && len(proof.Raw()) > 0
	env.Assert(prefix+".proof_presence", hasProof == withProof)
	if !withProof || !hasProof {
		return
	}
	if c20NoPreprepare {
		env.Assert(prefix+".proof.pp_absent", len(proof.PreprepareBlockRef().Raw()) == 0 && len(proof.PreprepareSender().Raw()) == 0)
	} else {
		c20RefEq(prefix+".proof.pp_ref", proof.PreprepareBlockRef(), protocol.LEAN_HELIX_PREPREPARE, inst, h, pv, hash)
		env.Assert(prefix+".proof.pp_sender", env.EqBytes(proof.PreprepareSender().MemberId(), ps[1].id))
		env.Assert(prefix+".proof.pp_sig_verifies", km.VerifyConsensusMessage(h, proof.PreprepareBlockRef().Raw(), proof.PreprepareSender()) == nil)
	}
	if prepares > 0 {
		pview := pv
		if c20PrepareView != nil {
			pview = c20PrepareView(pv)
		}
		c20RefEq(prefix+".proof.p_ref", proof.PrepareBlockRef(), protocol.LEAN_HELIX_PREPARE, inst, h, pview, hash)
	}
	it := proof.PrepareSendersIterator()
	j := 0
	for it.HasNext() {
		s := it.NextPrepareSenders()
		if j < prepares {
			env.Assert(prefix+".proof.p_sender", env.EqBytes(s.MemberId(), ps[2+j].id))
			env.Assert(prefix+".proof.p_sig_verifies", km.VerifyConsensusMessage(h, proof.PrepareBlockRef().Raw(), s) == nil)
		}
		j++
	}
	env.Assert(prefix+".proof.p_count", j == prepares)
}

// C20_ViewChange: VIEW_CHANGE with/without prepared proof -> raw -> parse.
func c20Shape() {
	c20PrepareView, c20NoPreprepare = nil, false
	switch env.Param("shape") {
	case 1: // PREPAREs of an independent symbolic view
		other := primitives.View(env.NondetU64("prepare_view"))
		c20PrepareView = func(pv primitives.View) primitives.View { return other }
	case 2: // no PREPREPARE part
		c20NoPreprepare = true
	}
}

func C20_ViewChange() {
	c20Shape()
	idLen, hashLen, prepares := env.Param("idlen"), env.Param("hashlen"), env.Param("prepares")
	withProof := env.Param("proof") == 1
	reg := stub.NewRegistry()
	inst := primitives.InstanceId(env.NondetU64("instance"))
	ps := c20Parties(reg, inst, 2+prepares, idLen, 1)
	h := primitives.BlockHeight(env.NondetU64("height"))
	v := primitives.View(env.NondetU64("view"))
	pv := primitives.View(env.NondetU64("pview"))
	hash := primitives.BlockHash(env.NondetBytes("hash", hashLen))
	block := &stub.Block{H: h, Tag: 9}
	vcm, _ := c20BuildVote(ps, h, v, pv, hash, block, withProof, prepares)
	back := interfaces.ToConsensusMessage(vcm.ToConsensusRawMessage())
	env.Assert("C20.VC.not_nil", back != nil)
	m, ok := back.(*interfaces.ViewChangeMessage)
	env.Assert("C20.VC.kind", ok)
	if !ok {
		return
	}
	env.Assert("C20.VC.accessors", env.And(m.MessageType() == protocol.LEAN_HELIX_VIEW_CHANGE, env.And(m.InstanceId() == inst, env.And(m.BlockHeight() == h, env.And(m.View() == v, env.EqBytes(m.SenderMemberId(), ps[0].id))))))
	if withProof && !c20NoPreprepare { // the factory takes the block from the PREPREPARE part
		env.Assert("C20.VC.block", m.Block() == interfaces.Block(block))
	} else {
		env.Assert("C20.VC.block", m.Block() == nil)
	}
	c20CheckVoteContent("C20.VC", m.Content(), ps[0].km, ps[0].id, inst, h, v, pv, hash, ps, withProof, prepares)
	env.Assert("C20.VC.raw_equal", env.EqBytes(m.Raw(), vcm.Raw()))
	env.Reach("C20.VC.done")
}

// C20_NewView: `votes` VIEW_CHANGE messages re-encoded field by field into a NEW_VIEW -> raw -> parse.
func C20_NewView() {
	c20Shape()
	idLen, hashLen, votes, prepares := env.Param("idlen"), env.Param("hashlen"), env.Param("votes"), env.Param("prepares")
	proofMask := env.Param("proofmask")
	reg := stub.NewRegistry()
	inst := primitives.InstanceId(env.NondetU64("instance"))
	h := primitives.BlockHeight(env.NondetU64("height"))
	v := primitives.View(env.NondetU64("view"))
	hash := primitives.BlockHash(env.NondetBytes("hash", hashLen))
	block := &stub.Block{H: h, Tag: 9}
	leader := c20Parties(reg, inst, 1, idLen, 1)[0]
	var vcms []*interfaces.ViewChangeMessage
	var parties [][]*c20Party
	var pvs []primitives.View
	for i := 0; i < votes; i++ {
		ps := c20Parties(reg, inst, 2+prepares, idLen, 1)
		pv := primitives.View(env.NondetU64("pview"))
		vcm, _ := c20BuildVote(ps, h, v, pv, hash, block, proofMask&(1<<uint(i)) != 0, prepares)
		vcms = append(vcms, vcm)
		parties = append(parties, ps)
		pvs = append(pvs, pv)
	}
	confirmations := interfaces.ExtractConfirmationsFromViewChangeMessages(vcms)
	ppb := leader.f.CreatePreprepareMessageContentBuilder(h, v, block, hash)
	noPP := env.ParamOr("nopp", 0) == 1
	if noPP {
		// the factory also builds a NEW_VIEW that carries a block but no embedded PREPREPARE
		ppb = nil
	}
	nvm := leader.f.CreateNewViewMessage(h, v, ppb, confirmations, block)
	back := interfaces.ToConsensusMessage(nvm.ToConsensusRawMessage())
	m, ok := back.(*interfaces.NewViewMessage)
	env.Assert("C20.NV.kind", ok)
	if !ok {
		return
	}
	env.Assert("C20.NV.accessors", env.And(m.MessageType() == protocol.LEAN_HELIX_NEW_VIEW, env.And(m.InstanceId() == inst, env.And(m.BlockHeight() == h, env.And(m.View() == v, env.EqBytes(m.SenderMemberId(), leader.id))))))
	env.Assert("C20.NV.block", m.Block() == interfaces.Block(block))
	hdr := m.Content().SignedHeader()
	env.Assert("C20.NV.sig_still_verifies", leader.km.VerifyConsensusMessage(h, hdr.Raw(), m.Content().Sender()) == nil)
	pp := m.Content().Message()
	if !noPP {
		c20RefEq("C20.NV.pp_ref", pp.SignedHeader(), protocol.LEAN_HELIX_PREPREPARE, inst, h, v, hash)
		env.Assert("C20.NV.pp_sig_verifies", leader.km.VerifyConsensusMessage(h, pp.SignedHeader().Raw(), pp.Sender()) == nil)
	} else {
		env.Assert("C20.NV.pp_ref", len(pp.Raw()) == 0)
	}
	it := hdr.ViewChangeConfirmationsIterator()
	i := 0
	for it.HasNext() {
		c := it.NextViewChangeConfirmations()
		if i < votes {
			c20CheckVoteContent("C20.NV.vote", c, leader.km, parties[i][0].id, inst, h, v, pvs[i], hash, parties[i], proofMask&(1<<uint(i)) != 0, prepares)
			// the re-encoded vote header is byte-identical to the one the voter signed
			env.Assert("C20.NV.vote.header_bytes", env.EqBytes(c.SignedHeader().Raw(), vcms[i].Content().SignedHeader().Raw()))
		}
		i++
	}
	env.Assert("C20.NV.vote_count", i == votes)
	env.Reach("C20.NV.done")
}

// C20_BlockProof: block proof generated from `commits` COMMIT messages -> raw -> parse.
func C20_BlockProof() {
	idLen, hashLen, commits := env.Param("idlen"), env.Param("hashlen"), env.Param("commits")
	reg := stub.NewRegistry()
	inst := primitives.InstanceId(env.NondetU64("instance"))
	seed := env.NondetU64("seed")
	ps := c20Parties(reg, inst, commits, idLen, seed)
	for i, p := range ps {
		// shares of length 0 are within the quantification (lengths 0..256)
		p.km.EmptyShares = env.Param("emptyshares")&(1<<uint(i)) != 0
	}
	h := primitives.BlockHeight(env.NondetU64("height"))
	v := primitives.View(env.NondetU64("view"))
	hash := primitives.BlockHash(env.NondetBytes("hash", hashLen))
	cms := make([]*interfaces.CommitMessage, commits)
	for i := range cms {
		cms[i] = ps[i].f.CreateCommitMessage(h, v, hash)
	}
	bp := blockproof.GenerateLeanHelixBlockProof(ps[0].km, cms)
	back := protocol.BlockProofReader(bp.Raw())
	c20RefEq("C20.proof.ref", back.BlockRef(), protocol.LEAN_HELIX_COMMIT, inst, h, v, hash)
	it := back.NodesIterator()
	i := 0
	for it.HasNext() {
		s := it.NextNodes()
		if i < commits {
			env.Assert("C20.proof.signer", env.EqBytes(s.MemberId(), ps[i].id))
			env.Assert("C20.proof.sig_still_verifies", ps[0].km.VerifyConsensusMessage(h, back.BlockRef().Raw(), s) == nil)
		}
		i++
	}
	env.Assert("C20.proof.signer_count", i == commits)
	want := stub.GroupSeedSig(uint64(h), u64bytes(seed))
	_ = want
	env.Assert("C20.proof.seed_sig_nonempty", len(back.RandomSeedSignature()) == 8)
	env.Reach("C20.proof.done")
}
