package leanhelix

import (
	"context"

	"github.com/orbs-network/lean-helix-go/services/interfaces"
	"github.com/orbs-network/lean-helix-go/spec/types/go/primitives"
	stub "github.com/orbs-network/lean-helix-go/zzverifstub"
)

// vNode: one real node (MainLoop + WorkerLoop + filters + term) wired to the environment stubs,
// driven synchronously by the harness exactly the way WorkerLoop.Run drives it.
type vNode struct {
	idx     int
	me      primitives.MemberId
	reg     *stub.Registry
	km      *stub.KeyManager
	comm    *stub.Comm
	mem     *stub.Membership
	bu      *stub.BlockUtils
	el      *stub.Election
	st      *stub.Storage
	cfg     *interfaces.Config
	m       *MainLoop
	commits []*vCommit
	rounds  []*vRound
	// commit callback behaviour
	commitErr bool
}

type vCommit struct {
	block *stub.Block
	raw   interfaces.Block
	proof []byte
	ctx   context.Context
}

type vRound struct {
	height           primitives.BlockHeight
	prevBlock        interfaces.Block
	canBeFirstLeader bool
	ctx              context.Context
}

func newVNode(reg *stub.Registry, committee []interfaces.CommitteeMember, idx int, instance primitives.InstanceId) *vNode {
	n := &vNode{idx: idx, reg: reg}
	n.me = committee[idx].Id
	n.km = stub.NewKeyManager(reg, n.me)
	n.comm = &stub.Comm{}
	n.mem = &stub.Membership{Me: n.me, Committee: committee}
	n.bu = &stub.BlockUtils{}
	n.el = stub.NewElection()
	n.st = stub.NewStorage()
	n.cfg = &interfaces.Config{
		InstanceId:              instance,
		Communication:           n.comm,
		Membership:              n.mem,
		BlockUtils:              n.bu,
		KeyManager:              n.km,
		Storage:                 n.st,
		Logger:                  stub.ExtLogger{},
		OverrideElectionTrigger: n.el,
	}
	n.m = NewLeanHelix(n.cfg, n.onCommit, n.onNewRound)
	// what MainLoop.Run does before starting the goroutines
	n.m.worker = NewWorkerLoop(n.m.state, n.m.config, n.m.logger, n.m.electionScheduler, n.m.onCommitCallback, n.m.onNewConsensusRoundCallback)
	return n
}

func (n *vNode) onCommit(ctx context.Context, block interfaces.Block, blockProof []byte) error {
	b, _ := block.(*stub.Block)
	n.commits = append(n.commits, &vCommit{block: b, raw: block, proof: blockProof, ctx: ctx})
	if n.commitErr {
		return stub.ErrStub
	}
	return nil
}

func (n *vNode) onNewRound(ctx context.Context, newHeight primitives.BlockHeight, prevBlock interfaces.Block, canBeFirstLeader bool) {
	n.rounds = append(n.rounds, &vRound{height: newHeight, prevBlock: prevBlock, canBeFirstLeader: canBeFirstLeader, ctx: ctx})
}

// start: enter the round after prevBlock (what the worker does on commit / sync).
func (n *vNode) start(prevBlock interfaces.Block, prevProof []byte, canBeFirstLeader bool) {
	n.m.worker.onNewConsensusRound(prevBlock, prevProof, canBeFirstLeader)
}

// deliver: what WorkerLoop.Run does with one received message.
func (n *vNode) deliver(raw *interfaces.ConsensusRawMessage) {
	n.m.worker.filter.HandleConsensusRawMessage(raw)
}

// timeout: the election trigger of the last armed (height, view) fires and reaches the worker.
func (n *vNode) timeout() {
	r := n.el.Last()
	if r == nil || r.Cb == nil {
		return
	}
	cur := n.m.state.HeightView()
	if cur.Height() != r.H || cur.View() != r.V { // the worker's stale-trigger guard
		return
	}
	r.Cb(r.H, r.V, nil)
}

func vCommittee(n int, weights []uint64) []interfaces.CommitteeMember {
	c := make([]interfaces.CommitteeMember, n)
	for i := 0; i < n; i++ {
		c[i] = interfaces.CommitteeMember{Id: primitives.MemberId{byte(i + 1)}, Weight: primitives.MemberWeight(weights[i])}
	}
	return c
}

func equalWeights(n int) []uint64 {
	w := make([]uint64, n)
	for i := range w {
		w[i] = 1
	}
	return w
}
