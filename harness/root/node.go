package leanhelix

import (
	"context"

	"github.com/orbs-network/lean-helix-go/services/interfaces"
	"github.com/orbs-network/lean-helix-go/services/messagesfactory"
	"github.com/orbs-network/lean-helix-go/services/preparedmessages"
	"github.com/orbs-network/lean-helix-go/services/randomseed"
	"github.com/orbs-network/lean-helix-go/spec/types/go/primitives"
	"github.com/orbs-network/lean-helix-go/spec/types/go/protocol"
	env "github.com/orbs-network/lean-helix-go/zzverifenv"
	stub "github.com/orbs-network/lean-helix-go/zzverifstub"
)

// vNode: one real node (MainLoop + WorkerLoop + filters + term) wired to the environment stubs,
// driven synchronously by the harness exactly the way WorkerLoop.Run drives it.
type vNode struct {
	idx     int
	me      primitives.MemberId
	reg     *stub.Registry
	km      *stub.KeyManager
	comm    *stub.Comm
	mem     *stub.Membership
	bu      *stub.BlockUtils
	el      *stub.Election
	st      *stub.Storage
	cfg     *interfaces.Config
	m       *MainLoop
	commits []*vCommit
	rounds  []*vRound
	// commit callback behaviour
	commitErr    bool
	commitPanics bool // the commit callback panics (a bug of the consumer) after recording the commit
	onCommitHook func(ctx context.Context) // runs inside the commit callback (the worker is blocked in the SPI call)
}

type vCommit struct {
	seq   int // number of round callbacks seen before this commit callback
	block *stub.Block
	raw   interfaces.Block
	proof []byte
	ctx   context.Context
}

type vRound struct {
	height           primitives.BlockHeight
	prevBlock        interfaces.Block
	canBeFirstLeader bool
	ctx              context.Context
}

func newVNode(reg *stub.Registry, committee []interfaces.CommitteeMember, idx int, instance primitives.InstanceId) *vNode {
	n := &vNode{idx: idx, reg: reg}
	n.me = committee[idx].Id
	n.km = stub.NewKeyManager(reg, n.me)
	n.comm = &stub.Comm{}
	n.mem = &stub.Membership{Me: n.me, Committee: committee}
	n.bu = &stub.BlockUtils{}
	// every fresh proposal is a different block: odd (acceptable) tags, unique per node and request
	n.bu.NextTag = func() byte { return byte(0x41 + 32*idx + 2*len(n.bu.Requests)) }
	n.el = stub.NewElection()
	n.st = stub.NewStorage()
	n.cfg = &interfaces.Config{
		InstanceId:              instance,
		Communication:           n.comm,
		Membership:              n.mem,
		BlockUtils:              n.bu,
		KeyManager:              n.km,
		Storage:                 n.st,
		Logger:                  stub.ExtLogger{},
		OverrideElectionTrigger: n.el,
	}
	n.m = NewLeanHelix(n.cfg, n.onCommit, n.onNewRound)
	// what MainLoop.Run does before starting the goroutines
	n.m.worker = NewWorkerLoop(n.m.state, n.m.config, n.m.logger, n.m.electionScheduler, n.m.onCommitCallback, n.m.onNewConsensusRoundCallback)
	return n
}

func (n *vNode) onCommit(ctx context.Context, block interfaces.Block, blockProof []byte) error {
	b, _ := block.(*stub.Block)
	n.commits = append(n.commits, &vCommit{seq: len(n.rounds), block: b, raw: block, proof: blockProof, ctx: ctx})
	if n.onCommitHook != nil {
		n.onCommitHook(ctx)
	}
	if n.commitPanics {
		panic("consumer commit callback: unexpected failure")
	}
	if n.commitErr {
		return stub.ErrStub
	}
	return nil
}

func (n *vNode) onNewRound(ctx context.Context, newHeight primitives.BlockHeight, prevBlock interfaces.Block, canBeFirstLeader bool) {
	n.rounds = append(n.rounds, &vRound{height: newHeight, prevBlock: prevBlock, canBeFirstLeader: canBeFirstLeader, ctx: ctx})
}

// start: enter the round after prevBlock (what the worker does on commit / sync).
func (n *vNode) start(prevBlock interfaces.Block, prevProof []byte, canBeFirstLeader bool) {
	n.m.worker.onNewConsensusRound(prevBlock, prevProof, canBeFirstLeader)
}

// deliver: what WorkerLoop.Run does with one received message.
func (n *vNode) deliver(raw *interfaces.ConsensusRawMessage) {
	n.m.worker.filter.HandleConsensusRawMessage(raw)
}

// timeout: the election trigger of the last armed (height, view) fires and reaches the worker.
func (n *vNode) timeout() {
	r := n.el.Last()
	if r == nil || r.Cb == nil {
		return
	}
	cur := n.m.state.HeightView()
	if cur.Height() != r.H || cur.View() != r.V { // the worker's stale-trigger guard
		return
	}
	r.Cb(r.H, r.V, nil)
}

// committeeIds: the one-byte ids of the ordered committee: 1..n, or (run parameter idperm=1, n=4) an order that is
// not sorted by id, so that code which re-orders the committee is visible
func committeeIds(n int) []byte {
	if env.ParamOr("idperm", 0) == 1 && n == 4 {
		return []byte{3, 1, 4, 2}
	}
	ids := make([]byte, n)
	for i := range ids {
		ids[i] = byte(i + 1)
	}
	return ids
}

func vCommittee(n int, weights []uint64) []interfaces.CommitteeMember {
	ids := committeeIds(n)
	c := make([]interfaces.CommitteeMember, n)
	for i := 0; i < n; i++ {
		c[i] = interfaces.CommitteeMember{Id: primitives.MemberId{ids[i]}, Weight: primitives.MemberWeight(weights[i])}
	}
	return c
}

func equalWeights(n int) []uint64 {
	w := make([]uint64, n)
	for i := range w {
		w[i] = 1
	}
	return w
}

// paramWeights: the committee weights of a run: equal weights unless the configuration sets "weights"
// (1: [3,1,1,1]  2: [1,2,3,4]  3: [2,2,1,1]  4: [4,3,2,1]  5: [3,1,0,4]; f and Q differ: W=6,f=1,Q=5 / W=10,f=3,Q=7 / W=6,f=1,Q=5).
func paramWeights() []uint64 {
	switch env.ParamOr("weights", 0) {
	case 1:
		return []uint64{3, 1, 1, 1}
	case 2:
		return []uint64{1, 2, 3, 4}
	case 3:
		return []uint64{2, 2, 1, 1}
	case 4:
		return []uint64{4, 3, 2, 1}
	case 5:
		return []uint64{3, 1, 0, 4} // a zero-weight member (W=8, f=2, Q=6)
	case 6:
		return []uint64{1, 1, 1, 7} // member 3 alone holds the quorum weight (W=10, f=3, Q=7)
	case 7:
		return []uint64{7, 1, 1, 1} // the leader of view 0 alone holds the quorum weight
	}
	return equalWeights(4)
}

// ---------------- honest peers ----------------

// vNet: the committee as seen by the harness: one real MessageFactory per member (each with its own
// key in the shared ideal-signature registry), used to produce honest traffic and, with symbolic
// field values, adversarial traffic signed under a chosen member's key.
type vNet struct {
	reg       *stub.Registry
	committee []interfaces.CommitteeMember
	instance  primitives.InstanceId
	seed      uint64
	facs      []*messagesfactory.MessageFactory
	kms       []*stub.KeyManager
}

func newVNet(reg *stub.Registry, committee []interfaces.CommitteeMember, instance primitives.InstanceId, prevProof []byte) *vNet {
	net := &vNet{reg: reg, committee: committee, instance: instance}
	net.seed = randomseed.CalculateRandomSeed(protocol.BlockProofReader(prevProof).RandomSeedSignature())
	for _, m := range committee {
		km := stub.NewKeyManager(reg, m.Id)
		net.kms = append(net.kms, km)
		net.facs = append(net.facs, messagesfactory.NewMessageFactory(instance, km, m.Id, net.seed))
	}
	return net
}

func (net *vNet) leaderIdx(v primitives.View) int { return int(uint64(v) % uint64(len(net.committee))) }

func (net *vNet) ppm(idx int, h primitives.BlockHeight, v primitives.View, b *stub.Block) *interfaces.PreprepareMessage {
	return net.facs[idx].CreatePreprepareMessage(h, v, b, stub.HashOf(b))
}
func (net *vNet) pm(idx int, h primitives.BlockHeight, v primitives.View, hash primitives.BlockHash) *interfaces.PrepareMessage {
	return net.facs[idx].CreatePrepareMessage(h, v, hash)
}
func (net *vNet) cm(idx int, h primitives.BlockHeight, v primitives.View, hash primitives.BlockHash) *interfaces.CommitMessage {
	return net.facs[idx].CreateCommitMessage(h, v, hash)
}
func (net *vNet) vcm(idx int, h primitives.BlockHeight, v primitives.View, prepared *preparedmessages.PreparedMessages) *interfaces.ViewChangeMessage {
	return net.facs[idx].CreateViewChangeMessage(h, v, prepared)
}

// nvm: NEW_VIEW by member idx carrying the given votes and proposing block b.
func (net *vNet) nvm(idx int, h primitives.BlockHeight, v primitives.View, votes []*interfaces.ViewChangeMessage, b *stub.Block) *interfaces.NewViewMessage {
	ppb := net.facs[idx].CreatePreprepareMessageContentBuilder(h, v, b, stub.HashOf(b))
	return net.facs[idx].CreateNewViewMessage(h, v, ppb, interfaces.ExtractConfirmationsFromViewChangeMessages(votes), b)
}

// prepared: a prepared certificate for (h, v, block): PREPREPARE by leader(v) and PREPAREs by the given members.
func (net *vNet) prepared(h primitives.BlockHeight, v primitives.View, b *stub.Block, preparers []int) *preparedmessages.PreparedMessages {
	p := &preparedmessages.PreparedMessages{PreprepareMessage: net.ppm(net.leaderIdx(v), h, v, b)}
	for _, i := range preparers {
		p.PrepareMessages = append(p.PrepareMessages, net.pm(i, h, v, stub.HashOf(b)))
	}
	return p
}
