package leanhelix

import (
	"github.com/orbs-network/lean-helix-go/spec/types/go/primitives"
	env "github.com/orbs-network/lean-helix-go/zzverifenv"
	stub "github.com/orbs-network/lean-helix-go/zzverifstub"
)

func init() {
	env.Register("Smoke_HappyPath", Smoke_HappyPath)
}

// Smoke_HappyPath: a follower receives the proposal, prepares and commits of an honest view-0 round.
func Smoke_HappyPath() {
	reg := stub.NewRegistry()
	committee := vCommittee(4, equalWeights(4))
	net := newVNet(reg, committee, 7, nil)
	me := 1
	n := newVNode(reg, committee, me, 7)
	n.commitErr = true // stop after the commit callback
	n.start(nil, nil, true)
	b := &stub.Block{H: 1, Tag: env.NondetU8("tag"), ProposalOK: true}
	n.deliver(net.ppm(0, 1, 0, b).ToConsensusRawMessage())
	env.Assert("smoke.prepare_sent", len(n.comm.Out) == 1)
	n.deliver(net.pm(2, 1, 0, stub.HashOf(b)).ToConsensusRawMessage())
	n.deliver(net.pm(3, 1, 0, stub.HashOf(b)).ToConsensusRawMessage())
	env.Assert("smoke.commit_sent", len(n.comm.Out) == 2)
	n.deliver(net.cm(0, 1, 0, stub.HashOf(b)).ToConsensusRawMessage())
	n.deliver(net.cm(2, 1, 0, stub.HashOf(b)).ToConsensusRawMessage())
	env.Assert("smoke.committed", len(n.commits) == 1)
	if len(n.commits) == 1 {
		env.Assert("smoke.block", n.commits[0].block == b)
		env.Reach("smoke.committed")
	}
	_ = primitives.View(0)
}
