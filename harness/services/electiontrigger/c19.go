package Electiontrigger

import (
	"math"
	"time"

	"github.com/orbs-network/lean-helix-go/spec/types/go/primitives"
	env "github.com/orbs-network/lean-helix-go/zzverifenv"
)

func init() {
	env.Register("C19_Timeout", C19_Timeout)
}

// C19_Timeout: CalcTimeout(view) for a symbolic base in [1ns, 2^62ns] and every 64-bit view
// (views 0..70 case-split to concrete values, views >= 71 as one symbolic class).
func C19_Timeout() {
	base := env.NondetU64("base")
	env.Assume(base >= 1 && base <= 1<<62)
	t := NewTimerBasedElectionTrigger(time.Duration(base), nil)

	view := env.Concretize(env.NondetU64("view"), 0, 70)
	got := int64(t.CalcTimeout(primitives.View(view)))
	max := int64(t.CalcTimeout(primitives.View(math.MaxUint64)))

	env.Assert("C19.positive", got > 0)
	env.Assert("C19.max_is_upper_bound", got <= max)
	// exact while base*2^view fits into int64, saturated (= the maximum) otherwise
	fits := false
	exact := uint64(0)
	if view <= 62 {
		fits = base <= uint64(math.MaxInt64)>>view
		exact = base << view
	}
	env.Assert("C19.exact", env.Implies(fits, uint64(got) == exact))
	env.Assert("C19.saturate", env.Implies(env.Not(fits), got == max))

	// monotone in the view: one inductive step (view-1 -> view) for every view >= 1 gives monotonicity by transitivity
	if view == 0 {
		return
	}
	view2 := env.Concretize(view-1, 0, 70)
	got2 := int64(t.CalcTimeout(primitives.View(view2)))
	env.Assert("C19.monotone", got2 <= got)
	env.Assert("C19.positive", got2 > 0)

	if view >= 71 {
		env.Reach("C19.view_ge_71")
	}
	if view == 32 {
		env.Reach("C19.view_32")
	}
}
