package Electiontrigger

import (
	"time"

	"github.com/orbs-network/lean-helix-go/services/interfaces"
	"github.com/orbs-network/lean-helix-go/spec/types/go/primitives"
	env "github.com/orbs-network/lean-helix-go/zzverifenv"
)

func init() {
	env.Register("C19_Guards", C19_Guards)
}

// C19_Guards: the sequential arm / re-arm / stop logic of the real TimerBasedElectionTrigger against ghost
// timers (symbolically: time.AfterFunc is recorded and fired by the harness; natively: real millisecond
// timers). Positions are symbolic; views are kept below 4 so that the native timeouts stay short.
func C19_Guards() {
	t := NewTimerBasedElectionTrigger(time.Millisecond, nil)
	rv1, rv2 := env.NondetU64("v1"), env.NondetU64("v2")
	env.Assume(rv1 < 4 && rv2 < 4)
	h1, v1 := primitives.BlockHeight(env.NondetU64("h1")), primitives.View(env.Concretize(rv1, 0, 3))
	h2, v2 := primitives.BlockHeight(env.NondetU64("h2")), primitives.View(env.Concretize(rv2, 0, 3))
	env.Assume(h1 != h2 || v1 != v2)
	calls := 0
	var cbH primitives.BlockHeight
	var cbV primitives.View
	cb := func(h primitives.BlockHeight, v primitives.View, _ interfaces.OnElectionCallback) {
		calls++
		cbH, cbV = h, v
	}
	ch := t.ElectionChannel()

	// 1. an armed timer delivers exactly one trigger, carrying exactly its pair
	t.RegisterOnElection(h1, v1, cb)
	t.RegisterOnElection(h1, v1, cb) // re-arming the same pair is a no-op
	x, ok := env.RecvWithin(ch, 500)
	env.Assert("C19.armed_delivers", ok)
	if !ok {
		return
	}
	trig := x.(*interfaces.ElectionTrigger)
	env.Assert("C19.trigger_pair", trig.Hv.Height() == h1 && trig.Hv.View() == v1)
	trig.MoveToNextLeader()
	env.Assert("C19.callback_pair", calls == 1 && cbH == h1 && cbV == v1)
	_, again := env.RecvWithin(ch, 80)
	env.Assert("C19.at_most_one_trigger", !again)

	// 2. after expiry and Stop, arming the same pair again arms a timer
	t.Stop()
	t.RegisterOnElection(h1, v1, cb)
	x2, ok2 := env.RecvWithin(ch, 500)
	env.Assert("C19.rearm_same_pair_after_stop", ok2)
	if ok2 {
		tr2 := x2.(*interfaces.ElectionTrigger)
		env.Assert("C19.trigger_pair", tr2.Hv.Height() == h1 && tr2.Hv.View() == v1)
	}

	// 3. re-arming for another pair supersedes the old one: only the new pair is ever delivered,
	//    whether or not the old timer had already expired (with nobody reading)
	t.RegisterOnElection(h1, v1, cb)
	if env.NondetBool("old_timer_expired_first") {
		env.TimersExpire()
	}
	t.RegisterOnElection(h2, v2, cb)
	x3, ok3 := env.RecvWithin(ch, 500)
	env.Assert("C19.rearm_other_pair_delivers", ok3)
	if ok3 {
		tr3 := x3.(*interfaces.ElectionTrigger)
		env.Assert("C19.superseded_pair_never_delivered", tr3.Hv.Height() == h2 && tr3.Hv.View() == v2)
	}
	_, more := env.RecvWithin(ch, 80)
	env.Assert("C19.at_most_one_trigger", !more)

	// 4. Stop: nothing is delivered afterwards
	t.RegisterOnElection(h1, v1, cb)
	t.Stop()
	_, afterStop := env.RecvWithin(ch, 80)
	env.Assert("C19.stopped_delivers_nothing", !afterStop)
	env.Reach("C19.guards.done")
}
