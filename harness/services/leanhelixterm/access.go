package leanhelixterm

import (
	"github.com/orbs-network/lean-helix-go/services/termincommittee"
	"github.com/orbs-network/lean-helix-go/spec/types/go/primitives"
)

// VerifPreparedView: read-only harness accessor (overlay file, never written to /repo).
func VerifPreparedView(t *LeanHelixTerm) (primitives.View, bool) {
	if t == nil || t.termInCommittee == nil {
		return 0, false
	}
	return termincommittee.VerifPreparedView(t.termInCommittee)
}
