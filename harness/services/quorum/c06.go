package quorum

import (
	"github.com/orbs-network/lean-helix-go/services/interfaces"
	"github.com/orbs-network/lean-helix-go/spec/types/go/primitives"
	env "github.com/orbs-network/lean-helix-go/zzverifenv"
)

func init() {
	env.Register("C06_Quorum", C06_Quorum)
	env.Register("C06_IdShapes", C06_IdShapes)
	env.Register("C06_Large", C06_Large)
}

// reference: weight of the committee members whose id occurs in the list (each member once)
func c06RefWeight(ids []byte, list []byte, w []uint64) uint64 {
	sum := uint64(0)
	for i := range ids {
		in := false
		for _, x := range list {
			in = env.Or(in, x == ids[i])
		}
		sum += env.IteU64(in, w[i], 0)
	}
	return sum
}

func c06List(name string, m int) ([]byte, []primitives.MemberId) {
	raw := make([]byte, m)
	l := make([]primitives.MemberId, m)
	for k := 0; k < m; k++ {
		raw[k] = env.NondetU8(name)
		l[k] = primitives.MemberId{raw[k]}
	}
	return raw, l
}

// C06_Quorum: committee of n members with symbolic 64-bit weights; two id lists of length m
// with arbitrary symbolic bytes as ids (duplicates, outsiders and zero-weight members included).
func C06_Quorum() {
	n := env.Param("n")
	m := env.Param("m")
	ids := make([]byte, n)
	w := make([]uint64, n)
	members := make([]interfaces.CommitteeMember, n)
	total := uint64(0)
	for i := 0; i < n; i++ {
		ids[i] = byte(i + 1)
		w[i] = env.NondetU64("w")
		env.Assume(env.Not(env.AddOverflows(total, w[i]))) // the property's precondition: total fits in 64 bits
		total += w[i]
		members[i] = interfaces.CommitteeMember{Id: primitives.MemberId{ids[i]}, Weight: primitives.MemberWeight(w[i])}
	}
	// total weight 0 (a weightless committee) is included: floor((0-1)/3) = -1, so Q = W - f = 1 and nothing is a quorum;
	// f itself is not representable there and only has to stay below Q
	zero := total == 0
	fRef := env.IteU64(zero, 0, (total-1)/3)
	qRef := env.IteU64(zero, 1, total-fRef)

	weights := GetWeights(members)
	f := CalcByzMaxWeight(weights)
	q := CalcQuorumWeight(weights)
	env.Assert("C06.f_exact", env.Or(zero, uint64(f) == fRef))
	env.Assert("C06.q_exact", uint64(q) == qRef)
	env.Assert("C06.f_below_q", uint64(f) < uint64(q))

	raw1, l1 := c06List("l1", m)
	raw2, l2 := c06List("l2", m)
	isQ1, w1, q1 := IsQuorum(l1, members)
	isQ2, w2, _ := IsQuorum(l2, members)
	hon1, hw1, b1 := HasHonest(l1, members)
	ref1 := c06RefWeight(ids, raw1, w)
	ref2 := c06RefWeight(ids, raw2, w)
	env.Assert("C06.weight", env.And(uint64(w1) == ref1, env.And(uint64(w2) == ref2, uint64(hw1) == ref1)))
	env.Assert("C06.thresholds_reported", env.And(uint64(q1) == qRef, env.Or(zero, uint64(b1) == fRef)))
	env.Assert("C06.isquorum_def", isQ1 == (ref1 >= qRef))
	env.Assert("C06.hashonest_def", env.Or(zero, hon1 == (ref1 > fRef)))
	env.Assert("C06.weightless_is_no_quorum", env.Implies(ref1 == 0, env.Not(isQ1)))

	// intersection weight: members present in both lists
	inter := uint64(0)
	for i := 0; i < n; i++ {
		in1, in2 := false, false
		for k := 0; k < m; k++ {
			in1 = env.Or(in1, raw1[k] == ids[i])
			in2 = env.Or(in2, raw2[k] == ids[i])
		}
		inter += env.IteU64(env.And(in1, in2), w[i], 0)
	}
	env.Assert("C06.intersect", env.Implies(env.And(isQ1, isQ2), inter > fRef))
	env.Assert("C06.honest", env.Implies(isQ1, hon1))

	// attainability: members outside any subset B of weight <= f still form a quorum
	bw := uint64(0)
	rest := make([]primitives.MemberId, n)
	for i := 0; i < n; i++ {
		inB := env.NondetBool("inB")
		bw += env.IteU64(inB, w[i], 0)
		rest[i] = primitives.MemberId{env.IteU8(inB, 0, ids[i])} // id 0 is an outsider
	}
	isQrest, _, _ := IsQuorum(rest, members)
	env.Assert("C06.attain", env.Implies(env.And(env.Not(zero), bw <= fRef), isQrest))

	// monotonicity under list extension
	x := env.NondetU8("extra")
	l1x := append(append([]primitives.MemberId{}, l1...), primitives.MemberId{x})
	isQ1x, w1x, _ := IsQuorum(l1x, members)
	hon1x, _, _ := HasHonest(l1x, members)
	env.Assert("C06.mono", env.And(env.Implies(isQ1, isQ1x), env.And(env.Implies(hon1, hon1x), w1x >= w1)))

	// ids that are not single bytes of the committee never add weight: empty id and two-byte id
	odd := []primitives.MemberId{{}, {ids[0], ids[1]}, nil}
	_, wOdd, _ := IsQuorum(odd, members)
	env.Assert("C06.foreign_ids_no_weight", wOdd == 0)

	if total > 1<<53 {
		env.Reach("C06.total_gt_2^53")
	}
	if isQ1 && isQ2 {
		env.Reach("C06.two_quorums")
	}
}

// C06_IdShapes: member ids of length L that share their first L-1 bytes (distinct last byte), symbolic weights;
// a list of m entries, each of symbolic length L-1, L or L+1 with the shared prefix followed by symbolic bytes
// (so: truncated ids, ids extended by an arbitrary byte incl. 0x00, ids differing in the last byte only).
// Only an entry that equals a member's id byte for byte and in length may add that member's weight.
func C06_IdShapes() {
	n := 4
	L := env.Param("idlen")
	m := env.Param("m")
	prefix := make([]byte, L-1)
	for i := range prefix {
		prefix[i] = byte(0xA0 + i)
	}
	w := make([]uint64, n)
	members := make([]interfaces.CommitteeMember, n)
	total := uint64(0)
	for i := 0; i < n; i++ {
		w[i] = env.NondetU64("w")
		env.Assume(env.Not(env.AddOverflows(total, w[i])))
		total += w[i]
		id := append(append([]byte{}, prefix...), byte(i+1))
		members[i] = interfaces.CommitteeMember{Id: primitives.MemberId(id), Weight: primitives.MemberWeight(w[i])}
	}
	env.Assume(total > 0)
	list := make([]primitives.MemberId, m)
	isMember := make([][]bool, m) // isMember[k][i]: entry k is exactly member i's id
	for k := 0; k < m; k++ {
		ln := L - 1 + env.Choice("len", 3)
		e := make([]byte, ln)
		for x := 0; x < ln; x++ {
			if x < L-1 {
				e[x] = prefix[x]
			} else {
				e[x] = env.NondetU8("tail")
			}
		}
		list[k] = primitives.MemberId(e)
		isMember[k] = make([]bool, n)
		for i := 0; i < n; i++ {
			isMember[k][i] = ln == L && e[L-1] == byte(i+1)
		}
	}
	ref := uint64(0)
	for i := 0; i < n; i++ {
		in := false
		for k := 0; k < m; k++ {
			in = env.Or(in, isMember[k][i])
		}
		ref += env.IteU64(in, w[i], 0)
	}
	fRef := (total - 1) / 3
	isQ, wq, _ := IsQuorum(list, members)
	hon, wh, _ := HasHonest(list, members)
	env.Assert("C06.weight", env.And(uint64(wq) == ref, uint64(wh) == ref))
	env.Assert("C06.isquorum_def", isQ == (ref >= total-fRef))
	env.Assert("C06.hashonest_def", hon == (ref > fRef))
	if isQ {
		env.Reach("C06.shapes.quorum")
	}
}

// C06_Large: a large committee (n members, ids 1..n, unit weights) and a list made of m copies of one arbitrary
// one-byte id x followed by another arbitrary id y (duplicates and outsiders included): the reported weight counts
// every listed member once, wherever it sits in the committee order.
func C06_Large() {
	n := env.Param("n")
	m := env.Param("m")
	members := make([]interfaces.CommitteeMember, n)
	for i := 0; i < n; i++ {
		members[i] = interfaces.CommitteeMember{Id: primitives.MemberId{byte(i + 1)}, Weight: 1}
	}
	x, y := env.NondetU8("x"), env.NondetU8("y")
	var list []primitives.MemberId
	for k := 0; k < m; k++ {
		list = append(list, primitives.MemberId{x})
	}
	list = append(list, primitives.MemberId{y})
	isMember := func(id byte) bool { return env.And(id >= 1, uint64(id) <= uint64(n)) }
	ref := env.IteU64(isMember(x), 1, 0) + env.IteU64(env.And(isMember(y), y != x), 1, 0)
	total := uint64(n)
	fRef := (total - 1) / 3
	isQ, wq, _ := IsQuorum(list, members)
	hon, wh, _ := HasHonest(list, members)
	env.Assert("C06.weight", env.And(uint64(wq) == ref, uint64(wh) == ref))
	env.Assert("C06.isquorum_def", isQ == (ref >= total-fRef))
	env.Assert("C06.hashonest_def", hon == (ref > fRef))
	if uint64(wq) == 2 {
		env.Reach("C06.large.two_members")
	}
}
