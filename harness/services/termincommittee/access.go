package termincommittee

import "github.com/orbs-network/lean-helix-go/spec/types/go/primitives"

// VerifPreparedView: read-only harness accessor (overlay file, never written to /repo).
func VerifPreparedView(tic *TermInCommittee) (primitives.View, bool) {
	return tic.getPreparedLocally()
}
