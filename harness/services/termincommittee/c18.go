package termincommittee

import (
	"github.com/orbs-network/lean-helix-go/services/interfaces"
	"github.com/orbs-network/lean-helix-go/spec/types/go/primitives"
	env "github.com/orbs-network/lean-helix-go/zzverifenv"
)

func init() {
	env.Register("C18_Leader", C18_Leader)
}

func c18Committee(n int) []interfaces.CommitteeMember {
	members := make([]interfaces.CommitteeMember, n)
	for i := 0; i < n; i++ {
		members[i] = interfaces.CommitteeMember{Id: primitives.MemberId{byte(i + 1)}, Weight: 1}
	}
	return members
}

// C18_Leader: for every 64-bit view, the leader function does not panic and returns
// members[view mod n]; two evaluations agree; a run of n consecutive views has n distinct leaders.
func C18_Leader() {
	n := env.Param("n")
	members := c18Committee(n)
	view := primitives.View(env.NondetU64("view"))
	var got primitives.MemberId
	panicked := env.Catch(func() { got = calcLeaderOfViewAndCommittee(view, members) })
	env.Assert("C18.no_panic", panicked == 0)
	if panicked != 0 {
		return
	}
	// reference: unsigned modulo. ids are byte(i+1), so compare the id byte.
	want := byte(uint64(view)%uint64(n)) + 1
	env.Assert("C18.round_robin", env.And(len(got) == 1, got[0] == want))
	// determinism + isLeader consistency
	got2 := calcLeaderOfViewAndCommittee(view, members)
	env.Assert("C18.deterministic", env.EqBytes(got, got2))
	err := isLeaderOfViewForThisCommittee(got, view, members)
	env.Assert("C18.is_leader_consistent", err == nil)
	// window: a second view in the same run of n consecutive views has a different leader
	d := env.NondetU64("delta")
	env.Assume(d >= 1 && d < uint64(n))
	env.Assume(uint64(view) <= ^uint64(0)-d) // run does not wrap past 2^64-1
	var other primitives.MemberId
	p2 := env.Catch(func() { other = calcLeaderOfViewAndCommittee(view+primitives.View(d), members) })
	env.Assert("C18.no_panic", p2 == 0)
	if p2 != 0 {
		return
	}
	env.Assert("C18.window_distinct", env.Not(env.EqBytes(got, other)))
	if uint64(view) >= 1<<63 {
		env.Reach("C18.view_ge_2^63")
	}
}
