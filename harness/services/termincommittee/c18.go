package termincommittee

import (
	"github.com/orbs-network/lean-helix-go/services/interfaces"
	"github.com/orbs-network/lean-helix-go/spec/types/go/primitives"
	env "github.com/orbs-network/lean-helix-go/zzverifenv"
)

func init() {
	env.Register("C18_Leader", C18_Leader)
}

// ids: one byte (idlen=1) or four bytes sharing their first three (idlen=4): the last byte is the member number
func c18Committee(n int) []interfaces.CommitteeMember {
	members := make([]interfaces.CommitteeMember, n)
	long := env.Param("idlen") == 4
	for i := 0; i < n; i++ {
		id := primitives.MemberId{byte(i + 1)}
		if long {
			id = primitives.MemberId{0xAB, 0xCD, 0xEF, byte(i + 1)}
		}
		members[i] = interfaces.CommitteeMember{Id: id, Weight: 1}
	}
	return members
}

// C18_Leader: for every 64-bit view, the leader function does not panic and returns
// members[view mod n]; two evaluations agree; a run of n consecutive views has n distinct leaders.
func C18_Leader() {
	n := env.Param("n")
	members := c18Committee(n)
	view := primitives.View(env.NondetU64("view"))
	var got primitives.MemberId
	panicked := env.Catch(func() { got = calcLeaderOfViewAndCommittee(view, members) })
	env.Assert("C18.no_panic", panicked == 0)
	if panicked != 0 {
		return
	}
	// reference: unsigned modulo. ids are byte(i+1), so compare the id byte.
	want := byte(uint64(view)%uint64(n)) + 1
	env.Assert("C18.round_robin", env.And(len(got) == len(members[0].Id), got[len(got)-1] == want))
	// determinism + isLeader consistency
	got2 := calcLeaderOfViewAndCommittee(view, members)
	env.Assert("C18.deterministic", env.EqBytes(got, got2))
	err := isLeaderOfViewForThisCommittee(got, view, members)
	env.Assert("C18.is_leader_consistent", err == nil)
	// exactly one member is the leader: a symbolically chosen other member is not
	o := env.NondetU64("other_member")
	env.Assume(o < uint64(n))
	cand := members[0].Id
	for i := 1; i < n; i++ {
		if o == uint64(i) { // concretised by the fork
			cand = members[i].Id
		}
	}
	if !env.EqBytes(cand, got) {
		env.Assert("C18.only_one_leader", isLeaderOfViewForThisCommittee(cand, view, members) != nil)
	}
	// window: a second view in the same run of n consecutive views has a different leader
	d := env.NondetU64("delta")
	env.Assume(d >= 1 && d < uint64(n))
	env.Assume(uint64(view) <= ^uint64(0)-d) // run does not wrap past 2^64-1
	var other primitives.MemberId
	p2 := env.Catch(func() { other = calcLeaderOfViewAndCommittee(view+primitives.View(d), members) })
	env.Assert("C18.no_panic", p2 == 0)
	if p2 != 0 {
		return
	}
	env.Assert("C18.window_distinct", env.Not(env.EqBytes(got, other)))
	if uint64(view) >= 1<<63 {
		env.Reach("C18.view_ge_2^63")
	}
}
