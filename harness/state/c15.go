package state

import (
	"context"

	"github.com/orbs-network/lean-helix-go/spec/types/go/primitives"
	env "github.com/orbs-network/lean-helix-go/zzverifenv"
)

func init() {
	env.Register("C15_Registry", C15_Registry)
	env.Register("C13_State", C13_State)
}

type c15Issued struct {
	h, v      uint64
	ctx       context.Context
	cancelled bool // what the reference model says
}

func c15Older(h1, v1, h2, v2 uint64) bool {
	return env.Or(h1 < h2, env.And(h1 == h2, v1 < v2))
}

// C15_Registry: k operations For / CancelOlderThan / Shutdown with symbolic (height, view) arguments
// on the real ViewContexts, compared with a reference model after every step.
func C15_Registry() {
	k := env.Param("ops")
	vc := NewViewContexts()
	var issued []*c15Issued
	type hv struct{ h, v uint64 }
	var cancels []hv
	shutdown := false
	for i := 0; i < k; i++ {
		op := env.Choice("op", 3)
		h, v := env.NondetU64("h"), env.NondetU64("v")
		switch op {
		case 0:
			ctx, err := vc.For(NewHeightView(primitives.BlockHeight(h), primitives.View(v)))
			stale := false
			for _, c := range cancels {
				stale = env.Or(stale, c15Older(h, v, c.h, c.v))
			}
			env.Assert("C15.for.not_after_shutdown", env.Implies(shutdown, err != nil))
			env.Assert("C15.for.not_stale", env.Implies(stale, err != nil))
			env.Assert("C15.for.available", env.Implies(env.And(!shutdown, env.Not(stale)), err == nil))
			if err != nil {
				env.Assert("C15.for.nil_ctx_on_error", ctx == nil)
				continue
			}
			env.Assert("C15.for.fresh_ctx_live", ctx.Err() == nil)
			// idempotent between cancellations: the same position yields the same context
			for _, is := range issued {
				same := env.And(is.h == h, is.v == v)
				env.Assert("C15.for.idempotent", env.Implies(env.And(same, !is.cancelled), is.ctx == ctx))
				env.Assert("C15.for.distinct_positions_distinct_ctx", env.Implies(env.Not(same), is.ctx != ctx))
			}
			issued = append(issued, &c15Issued{h: h, v: v, ctx: ctx})
			env.Reach("C15.issued")
		case 1:
			vc.CancelOlderThan(NewHeightView(primitives.BlockHeight(h), primitives.View(v)))
			cancels = append(cancels, hv{h, v})
			for _, is := range issued {
				older := c15Older(is.h, is.v, h, v)
				is.cancelled = env.Or(is.cancelled, older)
			}
		case 2:
			vc.Shutdown()
			shutdown = true
			for _, is := range issued {
				is.cancelled = true
			}
		}
		// after every step the real contexts agree with the reference model
		for _, is := range issued {
			env.Assert("C15.cancel.state_matches_model", (is.ctx.Err() != nil) == is.cancelled)
		}
	}
	for _, is := range issued {
		if is.cancelled {
			env.Reach("C15.some_cancelled")
		}
	}
}

// C13_State: every State mutator from a symbolic (height, view) keeps (height, view) lexicographically
// non-decreasing and resets the view exactly when the height grows.
func C13_State() {
	s := NewState()
	h0, v0 := env.NondetU64("h0"), env.NondetU64("v0")
	// establish an arbitrary reachable state through the mutators themselves
	if h0 > 0 {
		s.SetHeightAndResetView(primitives.BlockHeight(h0))
	}
	s.SetView(primitives.View(v0))
	env.Assert("C13.setup", env.And(uint64(s.Height()) == h0, uint64(s.View()) == v0))
	k := env.Param("ops")
	for i := 0; i < k; i++ {
		bh, bv := uint64(s.Height()), uint64(s.View())
		x := env.NondetU64("arg")
		if env.Choice("op", 2) == 0 {
			hv, err := s.SetHeightAndResetView(primitives.BlockHeight(x))
			ah, av := uint64(s.Height()), uint64(s.View())
			env.Assert("C13.setheight.lex", env.Or(ah > bh, env.And(ah == bh, av >= bv)))
			env.Assert("C13.setheight.effect", env.Implies(x > bh, env.And(err == nil, env.And(ah == x, av == 0))))
			env.Assert("C13.setheight.reject", env.Implies(x <= bh, env.And(err != nil, env.And(ah == bh, av == bv))))
			env.Assert("C13.setheight.returns_state", env.And(uint64(hv.Height()) == ah, uint64(hv.View()) == av))
		} else {
			hv, err := s.SetView(primitives.View(x))
			ah, av := uint64(s.Height()), uint64(s.View())
			env.Assert("C13.setview.lex", env.And(ah == bh, av >= bv))
			env.Assert("C13.setview.effect", env.Implies(x >= bv, env.And(err == nil, av == x)))
			env.Assert("C13.setview.reject", env.Implies(x < bv, env.And(err != nil, av == bv)))
			env.Assert("C13.setview.returns_state", env.And(uint64(hv.Height()) == ah, uint64(hv.View()) == av))
		}
		ah, av := uint64(s.Height()), uint64(s.View())
		env.Assert("C13.view_reset_iff_height_up", env.Implies(ah > bh, av == 0))
		env.Assert("C13.view_kept_if_height_same", env.Implies(ah == bh, av >= bv))
	}
	env.Reach("C13.state.done")
}
