// Package zzverifenv: harness intrinsics and environment stubs.
//
// This package is injected into the repository by overlay only (it is never
// written to /repo). Every function in this file is *intercepted* by the
// symbolic engine (gosym); the Go bodies below are the native semantics used
// when a solver model is replayed against the real build with `go test`.
package zzverifenv

import (
	"context"
	"encoding/json"
	"fmt"
	"os"
	"reflect"
	"sync"
	"sync/atomic"
	"testing"
	"time"
)

type replayCase struct {
	Name    string            `json:"name"`
	Harness string            `json:"harness"`
	Params  map[string]int    `json:"params"`
	Values  map[string]uint64 `json:"values"`
	Expect  string            `json:"expect"` // "assert:<label>" or "reach:<label>"
}

type replayState struct {
	c       *replayCase
	seq     map[string]int
	failed  []string
	reached []string
	notes   []string
}

var (
	mu        sync.Mutex
	cur       *replayState
	harnesses = map[string]func(){}
)

type assumeFailed struct{}

func Register(name string, f func()) { harnesses[name] = f }

func next(name string) uint64 {
	if cur == nil {
		panic("zzverifenv: nondet value requested outside a replay")
	}
	stateMu.Lock()
	defer stateMu.Unlock()
	k := cur.seq[name]
	cur.seq[name] = k + 1
	return cur.c.Values[fmt.Sprintf("%s#%d", name, k)]
}

func NondetU64(name string) uint64 { return next(name) }
func NondetU32(name string) uint32 { return uint32(next(name)) }
func NondetU16(name string) uint16 { return uint16(next(name)) }
func NondetU8(name string) uint8   { return uint8(next(name)) }
func NondetBool(name string) bool  { return next(name) != 0 }

// Symbolic reports whether the harness is being executed by the symbolic engine.
func Symbolic() bool { return false }

func Assume(c bool) {
	if !c {
		panic(assumeFailed{})
	}
}

var stateMu sync.Mutex

func Assert(label string, c bool) {
	if !c {
		stateMu.Lock()
		cur.failed = append(cur.failed, label)
		stateMu.Unlock()
	}
}

func Reach(label string) {
	stateMu.Lock()
	cur.reached = append(cur.reached, label)
	stateMu.Unlock()
}

func Note(s string) { cur.notes = append(cur.notes, s) }

func Choice(name string, n int) int {
	v := next(name)
	Assume(v < uint64(n))
	return int(v)
}

func Concretize(x, lo, hi uint64) uint64 { return x }

func Param(name string) int {
	v, ok := cur.c.Params[name]
	if !ok {
		panic("missing param " + name)
	}
	return v
}

// ParamOr: a run parameter that older configurations do not set.
func ParamOr(name string, def int) int {
	v, ok := cur.c.Params[name]
	if !ok {
		return def
	}
	return v
}

// Catch runs f; 0 = returned normally, 1 = panicked, 2 = would block forever (symbolic engine only).
func Catch(f func()) (res int) {
	defer func() {
		if r := recover(); r != nil {
			if _, ok := r.(assumeFailed); ok {
				panic(r)
			}
			res = 1
		}
	}()
	f()
	return 0
}

// RunUntilParked runs a loop function that is expected to block (wait for more events) after it has
// processed the offered events: returns 2 when it is parked (symbolically: the would-block signal; natively:
// all offers taken plus a grace period, the goroutine keeps waiting), 0 if it returned, 1 if it panicked.
func RunUntilParked(f func()) int {
	res := make(chan int, 1)
	go func() {
		defer func() {
			if r := recover(); r != nil {
				res <- 1
			}
		}()
		f()
		res <- 0
	}()
	for i := 0; i < 4000 && atomic.LoadInt32(&pendingOffers) > 0; i++ {
		time.Sleep(time.Millisecond)
	}
	select {
	case r := <-res:
		return r
	case <-time.After(100 * time.Millisecond):
		return 2
	}
}

// Bounded runs f; false if it does not finish (symbolically: within the loop / step budget; natively:
// within 5 seconds - the goroutine is abandoned).
func Bounded(f func()) bool {
	done := make(chan struct{})
	var pv interface{}
	go func() {
		defer func() {
			pv = recover()
			close(done)
		}()
		f()
	}()
	select {
	case <-done:
		if pv != nil {
			panic(pv)
		}
		return true
	case <-time.After(5 * time.Second):
		return false
	}
}

func And(a, b bool) bool     { return a && b }
func Or(a, b bool) bool      { return a || b }
func Implies(a, b bool) bool { return !a || b }
func Not(a bool) bool        { return !a }
func IteU64(c bool, a, b uint64) uint64 {
	if c {
		return a
	}
	return b
}
func IteU8(c bool, a, b uint8) uint8 {
	if c {
		return a
	}
	return b
}
func IteBool(c bool, a, b bool) bool {
	if c {
		return a
	}
	return b
}
func EqBytes(a, b []byte) bool      { return string(a) == string(b) }
func AddOverflows(a, b uint64) bool { return a+b < a }

// NondetBytes returns n arbitrary bytes (n concrete).
func NondetBytes(name string, n int) []byte {
	b := make([]byte, n)
	for i := range b {
		b[i] = NondetU8(name)
	}
	return b
}

// RunReplays executes the replay cases listed in $VERIF_REPLAY (a JSON list) and prints one
// result line per case: VERIF-REPLAY name=<n> failed=[...] reached=[...] status=<s>
func RunReplays(t *testing.T) {
	path := os.Getenv("VERIF_REPLAY")
	if path == "" {
		t.Skip("no VERIF_REPLAY")
	}
	raw, err := os.ReadFile(path)
	if err != nil {
		t.Fatal(err)
	}
	var cases []*replayCase
	if err := json.Unmarshal(raw, &cases); err != nil {
		t.Fatal(err)
	}
	for _, c := range cases {
		st := runOne(c)
		out, _ := json.Marshal(map[string]interface{}{"name": c.Name, "status": st.status, "failed": st.failed, "reached": st.reached, "panic": st.panicMsg})
		fmt.Printf("VERIF-REPLAY %s\n", out)
	}
}

type oneResult struct {
	status   string
	failed   []string
	reached  []string
	panicMsg string
}

func runOne(c *replayCase) (res oneResult) {
	mu.Lock()
	defer mu.Unlock()
	h, ok := harnesses[c.Harness]
	if !ok {
		return oneResult{status: "no-such-harness"}
	}
	st := &replayState{c: c, seq: map[string]int{}}
	cur = st
	done := make(chan oneResult, 1)
	go func() {
		r := oneResult{status: "ok"}
		defer func() {
			if p := recover(); p != nil {
				if _, ok := p.(assumeFailed); ok {
					r.status = "assumption-violated"
				} else {
					r.status = "panic"
					r.panicMsg = fmt.Sprint(p)
				}
			}
			r.failed, r.reached = st.failed, st.reached
			done <- r
		}()
		h()
	}()
	select {
	case r := <-done:
		return r
	case <-time.After(20 * time.Second):
		return oneResult{status: "timeout-or-blocked", failed: st.failed, reached: st.reached}
	}
}

// ---------------- channel model (native side) ----------------

var pendingOffers int32

var perChan sync.Map // channel pointer -> *int32 pending offers on that channel

func chanCounter(ch interface{}) *int32 {
	k := reflect.ValueOf(ch).Pointer()
	v, _ := perChan.LoadOrStore(k, new(int32))
	return v.(*int32)
}

// ChanOffer: another goroutine is blocked sending v on ch.
func ChanOffer(ch interface{}, v interface{}) {
	atomic.AddInt32(&pendingOffers, 1)
	cnt := chanCounter(ch)
	atomic.AddInt32(cnt, 1)
	go func() {
		reflect.ValueOf(ch).Send(reflect.ValueOf(v))
		atomic.AddInt32(cnt, -1)
		atomic.AddInt32(&pendingOffers, -1)
	}()
}

// ChanOfferAfter: like ChanOffer, but the sender only shows up once everything offered on `after` was taken.
func ChanOfferAfter(ch interface{}, v interface{}, after interface{}) {
	atomic.AddInt32(&pendingOffers, 1)
	cnt := chanCounter(ch)
	atomic.AddInt32(cnt, 1)
	first := chanCounter(after)
	go func() {
		for atomic.LoadInt32(first) > 0 {
			time.Sleep(time.Millisecond)
		}
		time.Sleep(20 * time.Millisecond)
		reflect.ValueOf(ch).Send(reflect.ValueOf(v))
		atomic.AddInt32(cnt, -1)
		atomic.AddInt32(&pendingOffers, -1)
	}()
}

// ChanTaker: another goroutine is blocked receiving from ch.
func ChanTaker(ch interface{}) {
	go func() { reflect.ValueOf(ch).Recv() }()
}

// ChanOnRecv: another goroutine is blocked receiving from ch; f is called with the value it receives.
func ChanOnRecv(ch interface{}, f func(v interface{})) {
	go func() {
		v, ok := reflect.ValueOf(ch).Recv()
		if ok {
			atomic.AddInt32(&pendingOffers, 1) // keep the loop context alive while the callback runs
			f(v.Interface())
			atomic.AddInt32(&pendingOffers, -1)
		}
	}()
}

func ChanPending(ch interface{}) int  { return int(atomic.LoadInt32(chanCounter(ch))) }
func ChanBuffered(ch interface{}) int { return reflect.ValueOf(ch).Len() }

// CancelWhenIdle returns a context that is cancelled once every offered value has been taken
// and the receiving loop had time to finish processing it.
func CancelWhenIdle() context.Context {
	ctx, cancel := context.WithCancel(context.Background())
	go func() {
		// a loop that is parked for good with offers outstanding is idle too (symbolically: nothing deliverable):
		// after 3 s without the offers being taken the context is cancelled anyway
		start := time.Now()
		for atomic.LoadInt32(&pendingOffers) > 0 && time.Since(start) < 3*time.Second {
			time.Sleep(time.Millisecond)
		}
		time.Sleep(50 * time.Millisecond)
		cancel()
	}()
	return ctx
}

// RecvWithin receives from ch within ms milliseconds (symbolically: pending ghost timers expire until one delivers).
func RecvWithin(ch interface{}, ms int) (interface{}, bool) {
	cases := []reflect.SelectCase{
		{Dir: reflect.SelectRecv, Chan: reflect.ValueOf(ch)},
		{Dir: reflect.SelectRecv, Chan: reflect.ValueOf(time.After(time.Duration(ms) * time.Millisecond))},
	}
	i, v, ok := reflect.Select(cases)
	if i == 0 && ok {
		return v.Interface(), true
	}
	return nil, false
}

// TimersExpire lets every armed (millisecond-scale) timer fire while nobody reads its channel.
func TimersExpire() { time.Sleep(60 * time.Millisecond) }
