package zzverifstub

import (
	"context"
	"time"

	"github.com/orbs-network/lean-helix-go/services/interfaces"
	"github.com/orbs-network/lean-helix-go/services/storage"
	"github.com/orbs-network/lean-helix-go/spec/types/go/primitives"
	env "github.com/orbs-network/lean-helix-go/zzverifenv"
)

// ---------------- communication ----------------

type Sent struct {
	To  []primitives.MemberId
	Raw *interfaces.ConsensusRawMessage
	Msg interfaces.ConsensusMessage // parsed with the real reader
}

type Comm struct {
	Out  []*Sent
	Hook func(s *Sent) // called at send time (harness records the node state)
	// Fail, if set, decides per message whether the transport reports an error (after the message went out to its
	// first recipients: it stays recorded as sent)
	Fail func(s *Sent) bool
}

func (c *Comm) SendConsensusMessage(ctx context.Context, recipients []primitives.MemberId, message *interfaces.ConsensusRawMessage) error {
	s := &Sent{To: recipients, Raw: message, Msg: interfaces.ToConsensusMessage(message)}
	c.Out = append(c.Out, s)
	if c.Hook != nil {
		c.Hook(s)
	}
	if c.Fail != nil && c.Fail(s) {
		return ErrStub
	}
	return nil
}

// ---------------- membership ----------------

type Membership struct {
	Me           primitives.MemberId
	Committee    []interfaces.CommitteeMember
	FailOrdered  bool
	FailForProof bool
	OrderedCalls int
	Interfere    func(ctx context.Context, where string)
	LastCtx      context.Context
	// OrderedCommittee, if set, gives the ordered committee per block height (membership changes between heights)
	OrderedCommittee func(h primitives.BlockHeight) []interfaces.CommitteeMember
	// ProofCommittee, if set, gives the committee per block height (committees may change between heights)
	ProofCommittee func(h primitives.BlockHeight) []interfaces.CommitteeMember
	ProofRequests  []ProofCommitteeRequest
}

type ProofCommitteeRequest struct {
	Height  primitives.BlockHeight
	RefTime primitives.TimestampSeconds
}

func (m *Membership) MyMemberId() primitives.MemberId { return m.Me }

func (m *Membership) RequestOrderedCommittee(ctx context.Context, blockHeight primitives.BlockHeight, randomSeed uint64, prevBlockReferenceTime primitives.TimestampSeconds) ([]interfaces.CommitteeMember, error) {
	m.OrderedCalls++
	m.LastCtx = ctx
	if m.Interfere != nil {
		m.Interfere(ctx, "RequestOrderedCommittee")
	}
	if m.FailOrdered {
		return nil, ErrStub
	}
	if m.OrderedCommittee != nil {
		return m.OrderedCommittee(blockHeight), nil
	}
	return m.Committee, nil
}

func (m *Membership) RequestCommitteeForBlockProof(ctx context.Context, blockHeight primitives.BlockHeight, prevBlockReferenceTime primitives.TimestampSeconds) ([]interfaces.CommitteeMember, error) {
	m.ProofRequests = append(m.ProofRequests, ProofCommitteeRequest{blockHeight, prevBlockReferenceTime})
	if m.FailForProof {
		return nil, ErrStub
	}
	if m.ProofCommittee != nil {
		return m.ProofCommittee(blockHeight), nil
	}
	return m.Committee, nil
}

// ---------------- block utils ----------------

type ProposalCall struct {
	Height primitives.BlockHeight
	Block  *Block
	Hash   primitives.BlockHash
	OK     bool
	Ctx    context.Context
	Member primitives.MemberId // the proposer the library named to the consumer
}

type BlockUtils struct {
	PanicTag byte // ValidateBlockProposal panics (a bug of the consumer's validator) on a block with this tag (0: never)
	Lenient bool // ValidateBlockProposal approves a proposal whose block is missing
	Validations []*ProposalCall
	Requests    []*ProposalCall
	NextTag     func() byte
	Interfere   func(ctx context.Context, where string)
}

func (u *BlockUtils) RequestNewBlockProposal(ctx context.Context, blockHeight primitives.BlockHeight, memberId primitives.MemberId, prevBlock interfaces.Block) (interfaces.Block, primitives.BlockHash) {
	tag := byte(0x77)
	if u.NextTag != nil {
		tag = u.NextTag()
	}
	b := &Block{H: blockHeight, Tag: tag, ProposalOK: true}
	u.Requests = append(u.Requests, &ProposalCall{Height: blockHeight, Block: b, Hash: HashOf(b), OK: true, Ctx: ctx})
	if u.Interfere != nil {
		u.Interfere(ctx, "RequestNewBlockProposal")
	}
	return b, HashOf(b)
}

// ValidateBlockProposal: the documented consumer contract - approve iff the block is marked acceptable,
// has the requested height and matches the hash.
func (u *BlockUtils) ValidateBlockProposal(ctx context.Context, blockHeight primitives.BlockHeight, memberId primitives.MemberId, block interfaces.Block, blockHash primitives.BlockHash, prevBlock interfaces.Block) error {
	b, _ := block.(*Block)
	if b != nil && u.PanicTag != 0 && b.Tag == u.PanicTag {
		panic("consumer validator: unexpected block content")
	}
	ok := false
	if b != nil {
		ok = b.ProposalOK && b.H == blockHeight && Commits(b, blockHash)
	} else if u.Lenient {
		ok = true // a consumer that does not look at a missing block (as the repository's own test mocks)
	}
	u.Validations = append(u.Validations, &ProposalCall{Height: blockHeight, Block: b, Hash: blockHash, OK: ok, Ctx: ctx, Member: memberId})
	if u.Interfere != nil {
		u.Interfere(ctx, "ValidateBlockProposal")
	}
	if ok {
		return nil
	}
	return ErrStub
}

func (u *BlockUtils) ValidateBlockCommitment(blockHeight primitives.BlockHeight, block interfaces.Block, blockHash primitives.BlockHash) bool {
	b, _ := block.(*Block)
	if b == nil {
		return false
	}
	return env.And(Commits(block, blockHash), b.H == blockHeight)
}

// ---------------- election scheduler ----------------

type Registration struct {
	H  primitives.BlockHeight
	V  primitives.View
	Cb func(blockHeight primitives.BlockHeight, view primitives.View, onElectionCB interfaces.OnElectionCallback)
}

type Election struct {
	Regs    []*Registration
	Stops   int
	Channel chan *interfaces.ElectionTrigger
}

func NewElection() *Election { return &Election{Channel: make(chan *interfaces.ElectionTrigger)} }

func (e *Election) RegisterOnElection(blockHeight primitives.BlockHeight, view primitives.View, cb func(blockHeight primitives.BlockHeight, view primitives.View, onElectionCB interfaces.OnElectionCallback)) {
	e.Regs = append(e.Regs, &Registration{H: blockHeight, V: view, Cb: cb})
}
func (e *Election) ElectionChannel() chan *interfaces.ElectionTrigger { return e.Channel }
func (e *Election) CalcTimeout(view primitives.View) time.Duration    { return time.Second }
func (e *Election) Stop()                                             { e.Stops++ }

// Last returns the most recent registration.
func (e *Election) Last() *Registration {
	if len(e.Regs) == 0 {
		return nil
	}
	return e.Regs[len(e.Regs)-1]
}

// ---------------- storage recorder (wraps the real InMemoryStorage) ----------------

type StoreEvent struct {
	Kind        string // "PP","P","C","VC"
	Msg         interfaces.ConsensusMessage
	New         bool
	StateHeight primitives.BlockHeight // node height when the store happened (set by the OnStore hook)
}

type Storage struct {
	*storage.InMemoryStorage
	Events  []*StoreEvent
	OnStore func(e *StoreEvent)
}

func (s *Storage) record(e *StoreEvent) {
	s.Events = append(s.Events, e)
	if s.OnStore != nil {
		s.OnStore(e)
	}
}

func NewStorage() *Storage { return &Storage{InMemoryStorage: storage.NewInMemoryStorage()} }

func (s *Storage) StorePreprepare(ppm *interfaces.PreprepareMessage) bool {
	r := s.InMemoryStorage.StorePreprepare(ppm)
	s.record(&StoreEvent{Kind: "PP", Msg: ppm, New: r})
	return r
}
func (s *Storage) StorePrepare(pp *interfaces.PrepareMessage) bool {
	r := s.InMemoryStorage.StorePrepare(pp)
	s.record(&StoreEvent{Kind: "P", Msg: pp, New: r})
	return r
}
func (s *Storage) StoreCommit(cm *interfaces.CommitMessage) bool {
	r := s.InMemoryStorage.StoreCommit(cm)
	s.record(&StoreEvent{Kind: "C", Msg: cm, New: r})
	return r
}
func (s *Storage) StoreViewChange(vcm *interfaces.ViewChangeMessage) bool {
	r := s.InMemoryStorage.StoreViewChange(vcm)
	s.record(&StoreEvent{Kind: "VC", Msg: vcm, New: r})
	return r
}
