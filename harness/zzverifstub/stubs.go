// Package zzverifstub: environment models (SPI stubs) shared by the protocol harnesses.
// Plain Go: interpreted by the symbolic engine and compiled natively for replay.
// Every stub here is part of each claim that uses it (see DESIGN.md section 3).
package zzverifstub

import (
	"context"
	"errors"

	"github.com/orbs-network/lean-helix-go/services/interfaces"
	"github.com/orbs-network/lean-helix-go/spec/types/go/primitives"
	"github.com/orbs-network/lean-helix-go/spec/types/go/protocol"
	env "github.com/orbs-network/lean-helix-go/zzverifenv"
	"github.com/orbs-network/scribe/log"
)

var ErrStub = errors.New("stub error")

// ---------------- blocks ----------------

// Block: the hash of a block is the single byte Tag (injective commitment).
type Block struct {
	H          primitives.BlockHeight
	RefTime    primitives.TimestampSeconds
	Tag        byte
	ProposalOK bool
}

func (b *Block) Height() primitives.BlockHeight             { return b.H }
func (b *Block) ReferenceTime() primitives.TimestampSeconds { return b.RefTime }
func HashOf(b *Block) primitives.BlockHash                  { return primitives.BlockHash{b.Tag} }

// Commits: the commitment predicate as a term (no forking). The one-byte hash stands for a collision-free
// hash of the whole block: it determines the block's acceptability for the consumer (odd tags are
// acceptable proposals), so a block whose ProposalOK flag disagrees with its tag matches no hash; the
// block's height is bound by ValidateBlockCommitment's height argument.
func Commits(block interfaces.Block, hash primitives.BlockHash) bool {
	b, ok := block.(*Block)
	if !ok || b == nil {
		return false
	}
	if len(hash) != 1 {
		return false
	}
	return env.And(hash[0] == b.Tag, (b.Tag&1 == 1) == b.ProposalOK)
}

// ---------------- ideal signatures ----------------

const (
	KindConsensus = 1
	KindSeed      = 2
)

type sigEntry struct {
	enabled bool // symbolic: the signature was really made (adversarial "properly signed" bit)
	kind    int
	signer  []byte
	height  uint64
	content []byte
	token   []byte
}

// Registry: every key (correct member, Byzantine member, outsider) signs through it.
// A signature is a fresh unique 8-byte token; it verifies exactly for the
// (kind, signer, height, content bytes) it was made for: no forgery, no collisions.
type Registry struct {
	entries []*sigEntry
	next    uint64
	Signed  int
}

func NewRegistry() *Registry { return &Registry{next: 0x1000} }

func u64le(v uint64) []byte {
	b := make([]byte, 8)
	for i := 0; i < 8; i++ {
		b[i] = byte(v >> (8 * uint(i)))
	}
	return b
}

func (r *Registry) Sign(kind int, signer []byte, height uint64, content []byte) []byte {
	return r.SignIf(true, kind, signer, height, content)
}

// SignIf registers a signature that exists only if `enabled` holds (a symbolic condition): the token is
// returned either way, but it verifies only under that condition.
func (r *Registry) SignIf(enabled bool, kind int, signer []byte, height uint64, content []byte) []byte {
	r.next++
	tok := u64le(r.next)
	c := make([]byte, len(content))
	copy(c, content)
	s := make([]byte, len(signer))
	copy(s, signer)
	r.entries = append(r.entries, &sigEntry{enabled: enabled, kind: kind, signer: s, height: height, content: c, token: tok})
	r.Signed++
	return tok
}

// Valid is the verification predicate as a single boolean term.
func (r *Registry) Valid(kind int, signer []byte, height uint64, content []byte, sig []byte) bool {
	ok := false
	for _, e := range r.entries {
		if e.kind != kind || len(e.signer) != len(signer) || len(e.content) != len(content) || len(sig) != 8 {
			continue
		}
		m := env.And(e.enabled, env.And(env.EqBytes(e.signer, signer), env.And(e.height == height, env.And(env.EqBytes(e.content, content), env.EqBytes(e.token, sig)))))
		ok = env.Or(ok, m)
	}
	return ok
}

// GroupSeedSig: the aggregated (master) random-seed signature for (height, seed bytes): deterministic and injective.
func GroupSeedSig(height uint64, content []byte) []byte {
	v := uint64(len(content))
	for i := 0; i < len(content); i++ {
		v ^= uint64(content[i]) << (8 * uint(i%8))
		if i%8 == 7 {
			v = v<<7 | v>>57
		}
	}
	return u64le(v ^ height ^ 0xA5A5A5A5A5A5A5A5)
}

type KeyManager struct {
	Reg *Registry
	Me  primitives.MemberId
	// EmptyShares: this key manager's random-seed shares have length 0 (a degenerate but legal KeyManager)
	EmptyShares bool
	// counters for oracles
	VerifyCalls int
}

func NewKeyManager(reg *Registry, me primitives.MemberId) *KeyManager {
	return &KeyManager{Reg: reg, Me: me}
}

func (k *KeyManager) SignConsensusMessage(ctx context.Context, blockHeight primitives.BlockHeight, content []byte) primitives.Signature {
	return k.Reg.Sign(KindConsensus, k.Me, uint64(blockHeight), content)
}

func (k *KeyManager) VerifyConsensusMessage(blockHeight primitives.BlockHeight, content []byte, sender *protocol.SenderSignature) error {
	k.VerifyCalls++
	if k.Reg.Valid(KindConsensus, sender.MemberId(), uint64(blockHeight), content, sender.Signature()) {
		return nil
	}
	return ErrStub
}

func (k *KeyManager) SignRandomSeed(ctx context.Context, blockHeight primitives.BlockHeight, content []byte) primitives.RandomSeedSignature {
	if k.EmptyShares {
		return primitives.RandomSeedSignature{}
	}
	return k.Reg.Sign(KindSeed, k.Me, uint64(blockHeight), content)
}

func (k *KeyManager) VerifyRandomSeed(blockHeight primitives.BlockHeight, content []byte, sender *protocol.SenderSignature) error {
	if len(sender.MemberId()) == 0 {
		// master (aggregated) signature
		if env.EqBytes(sender.Signature(), GroupSeedSig(uint64(blockHeight), content)) {
			return nil
		}
		return ErrStub
	}
	if k.Reg.Valid(KindSeed, sender.MemberId(), uint64(blockHeight), content, sender.Signature()) {
		return nil
	}
	return ErrStub
}

// AggregateRandomSeed: the group signature over the content the shares were made for, if all
// shares are genuine shares over one content at this height; an unrelated value otherwise.
func (k *KeyManager) AggregateRandomSeed(blockHeight primitives.BlockHeight, randomSeedShares []*protocol.SenderSignature) primitives.RandomSeedSignature {
	var content []byte
	all := len(randomSeedShares) > 0
	for _, sh := range randomSeedShares {
		found := false
		for _, e := range k.Reg.entries {
			if e.kind != KindSeed || e.height != uint64(blockHeight) || len(e.signer) != len(sh.MemberId()) || len(sh.Signature()) != 8 {
				continue
			}
			if e.enabled && env.EqBytes(e.signer, sh.MemberId()) && env.EqBytes(e.token, sh.Signature()) {
				if content == nil {
					content = e.content
					found = true
				} else if env.EqBytes(content, e.content) {
					found = true
				}
				break
			}
		}
		if !found {
			all = false
		}
	}
	if all && content != nil {
		return GroupSeedSig(uint64(blockHeight), content)
	}
	return []byte{0, 0, 0, 0, 0, 0, 0, 0}
}

// ---------------- logger ----------------

type NopLogger struct{}

func (NopLogger) Debug(format string, args ...interface{})                   {}
func (NopLogger) Info(format string, args ...interface{})                    {}
func (NopLogger) Error(format string, args ...interface{})                   {}
func (NopLogger) ConsensusTrace(msg string, err error, fields ...*log.Field) {}
func (NopLogger) ExternalLogger() interfaces.Logger                          { return nil }

// ExtLogger implements interfaces.Logger (config.Logger).
type ExtLogger struct{}

func (ExtLogger) Debug(format string, args ...interface{})           {}
func (ExtLogger) Info(format string, args ...interface{})            {}
func (ExtLogger) Error(format string, args ...interface{})           {}
func (ExtLogger) ConsensusTrace(format string, fields ...*log.Field) {}
