#!/bin/bash
# resumes the thorough sweep: the tail of C07's list, then C10 (used once; see tools/run_thorough.sh)
here=$(cd "$(dirname "$0")/.." && pwd); cd $here
s=$(date +%s); ./check C07 --tier thorough --no-evidence --from 41 > thorough_C07b.log 2>&1; echo "C07b rc=$? $(( $(date +%s)-s ))s $(tail -1 thorough_C07b.log | cut -c1-200)"
s=$(date +%s); ./check C10 --tier thorough --no-evidence > thorough_C10.log 2>&1; echo "C10 rc=$? $(( $(date +%s)-s ))s $(tail -1 thorough_C10.log | cut -c1-200)"
