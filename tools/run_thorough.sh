#!/bin/bash
# Runs the thorough tier of every claimed property once on the unchanged tree (no evidence written) and prints one
# summary line per property; meant for `vp run -- tools/run_thorough.sh [ids...]`.
here=$(cd "$(dirname "$0")/.." && pwd); cd $here
ids="$@"; [ -z "$ids" ] && ids="C20 C15 C14 C13 C17 C19 C18 C09 C11 C06 C02 C12 C03 C04 C08 C07 C10 C01"
for p in $ids; do
  s=$(date +%s)
  timeout 14400 ./check $p --tier thorough --no-evidence > thorough_$p.log 2>&1; rc=$?
  e=$(date +%s)
  echo "$p rc=$rc $((e-s))s viol=$(grep -c '^VIOLATION' thorough_$p.log) inconcl=$(grep -c '^INCONCLUSIVE' thorough_$p.log) $(grep -E '^(OK|INCONCLUSIVE)' thorough_$p.log | head -2 | cut -c1-200 | tr '\n' ';')"
done
