#!/bin/bash
# Runs every stored seeded change against the quick check of the property it breaks, in a scratch worktree
# (never in /repo), and writes seeded/matrix.txt. usage: seed_matrix.sh [seed-name-substring]
export GOFLAGS=-mod=mod GOPROXY=off GOSUMDB=off GOTOOLCHAIN=local
wt=/tmp/seedwt_$$
git -C /repo worktree add -q --detach $wt HEAD || exit 2
trap 'git -C /repo worktree remove --force '$wt' >/dev/null 2>&1' EXIT
here=$(cd "$(dirname "$0")/.." && pwd)
out=$here/seeded/matrix.txt
[ -z "$1" ] && : > $out
cd $here
for d in seeded/*/; do
  name=$(basename $d)
  [ -n "$1" ] && [[ "$name" != *"$1"* ]] && continue
  prop=$(python3 -c "import json;print(json.load(open('$d/meta.json'))['breaks_property'])")
  git -C $wt checkout -q -- . && git -C $wt apply $PWD/$d/patch.diff || { echo "$name $prop PATCH-FAILED" >> $out; continue; }
  s=$(date +%s)
  res=$(timeout 3000 ./check $prop --no-evidence --repo $wt 2>&1 | grep -E "^(VIOLATION|KNOWN|INCONCL|OK)" | sed 's/replay=[^ ]*//; s/config=.*//' | sort | uniq -c | sort -rn | head -4 | tr '\n' ';')
  e=$(date +%s)
  echo "$name | $prop | $((e-s))s | $res" >> $out
done
