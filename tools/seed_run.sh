#!/bin/bash
# usage: seed_run.sh <seed-name> <property> [check args...]
# Applies a stored seeded change to /repo, runs the property's check, and reverts /repo straight afterwards.
name="$1"; prop="$2"; shift; shift
cd /repo && git diff --quiet || { echo "/repo not clean"; exit 2; }
git -C /repo apply /verif/seeded/$name/patch.diff || exit 2
trap 'git -C /repo checkout -- . ' EXIT
cd /verif && timeout 3600 ./check $prop --no-evidence "$@" 2>&1 | grep -E "^(VIOLATION|KNOWN|INCONCL|OK)" | sed 's/replay=[^ ]*//' | sort | uniq -c | sort -rn | head -8
