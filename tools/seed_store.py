#!/usr/bin/env python3
"""usage: seed_store.py <seed-name> <property> <outdir> "<needs>" -- copies a verified seeded change into /verif/seeded/<seed-name>/"""
import sys, os, shutil, json, glob, re
name, prop, out, needs = sys.argv[1:5]
dst = f"/verif/seeded/{name}"
os.makedirs(dst, exist_ok=True)
shutil.copy(f"{out}/patch.diff", f"{dst}/patch.diff")
demos = []
for f in glob.glob(f"{out}/*.go"):
    shutil.copy(f, dst); demos.append(os.path.basename(f))
for f in ("demo.txt", "notes.md"):
    if os.path.exists(f"{out}/{f}"): shutil.copy(f"{out}/{f}", dst)
cmd = ""
for l in open(f"{out}/demo.txt"):
    if "go test" in l:
        cmd = l[l.index("go test"):].strip().strip("`"); break
meta = {"seed": name, "breaks_property": prop, "needs_to_manifest": needs, "demonstration_files": demos, "demonstration_cmd": cmd,
        "base_commit": os.popen("git -C /repo log --format=%h -1").read().strip(),
        "confirmed": "tools/seed_verify.sh: demonstration passes on the clean tree; patch applies; go build ok; unedited suite passes with the change (2 runs); demonstration fails with the change",
        "source": "independent sub-agent given only the property text and a scratch worktree"}
json.dump(meta, open(f"{dst}/meta.json", "w"), indent=1)
print("stored", dst)
