#!/usr/bin/env python3
"""Regenerates seeded/README.md (table of seeded changes and the check results of seeded/matrix.txt)."""
import json, glob, os, re
rows = {}
for l in open('/verif/seeded/matrix.txt'):
    p = [x.strip() for x in l.split('|')]
    if len(p) >= 4:
        rows[p[0]] = (p[1], p[2], p[3])
out = ["# Seeded changes\n",
       "Each directory holds `patch.diff` (apply with `git -C <tree> apply`), the demonstration test(s), `demo.txt`, the author's `notes.md` and `meta.json`.",
       "All were produced by independent sub-agents that saw only the property text and a scratch worktree, and re-confirmed by `tools/seed_verify.sh`.",
       "`tools/seed_matrix.sh` applies each one in a scratch worktree and runs the quick check of the property it breaks; the last column is that result.\n",
       "| seed | property | needs, in order to manifest | quick check result |", "|---|---|---|---|"]
for d in sorted(glob.glob('/verif/seeded/*/meta.json')):
    m = json.load(open(d)); name = m['seed']
    prop, secs, res = rows.get(name, (m['breaks_property'], '', 'not run'))
    labels = sorted(set(re.findall(r'label=([A-Za-z0-9_.^]+)', res)))
    if 'VIOLATION' in res:
        r = 'caught: ' + ', '.join(labels[:4])
    elif 'INCONCLUSIVE' in res and 'OK property' not in res:
        r = 'inconclusive (no VIOLATION line)'
    elif res == 'not run':
        r = 'not run'
    else:
        r = '**missed**'
    out.append(f"| {name} | {prop} | {m['needs_to_manifest']} | {r} |")
open('/verif/seeded/README.md', 'w').write('\n'.join(out) + '\n')
print(len(out) - 6, "seeds")
