#!/bin/bash
# usage: seed_try.sh <patch.diff> <property> [check args...]
# Applies a patch in a scratch worktree of /repo (never /repo itself), runs the property's check against it, removes the worktree.
export GOFLAGS=-mod=mod GOPROXY=off GOSUMDB=off GOTOOLCHAIN=local
patch="$1"; prop="$2"; shift; shift
here=$(cd "$(dirname "$0")/.." && pwd)
wt=/tmp/trywt_$$
git -C /repo worktree add -q --detach $wt HEAD || exit 2
trap 'git -C /repo worktree remove --force '$wt' >/dev/null 2>&1' EXIT
git -C $wt apply "$patch" || { echo PATCH-FAILED; exit 2; }
cd $here && timeout 3600 ./check $prop --no-evidence --repo $wt "$@" 2>&1 | grep -E "^(VIOLATION|KNOWN|INCONCL|OK)" | sed 's/replay=[^ ]*//; s/config=.*//' | sort | uniq -c | sort -rn | head -8
