#!/bin/bash
# usage: seed_verify.sh <name> <outdir>
# Confirms a seeded change independently in a scratch worktree: the demo passes on the clean tree, the patch
# applies, the module builds, the unedited suite passes with it (2 runs) and the demo fails with it.
set -u
name="$1"; out="$2"
export GOFLAGS=-mod=mod GOPROXY=off GOSUMDB=off GOTOOLCHAIN=local
wt=/tmp/sv_$name
git -C /repo worktree remove --force $wt >/dev/null 2>&1
git -C /repo worktree add -q --detach $wt HEAD || exit 2
cd $wt
res() { echo "RESULT $name: $*"; }
# place demo files as demo.txt says (lines of the form: <file> -> <relative path>), else guess from notes
democmd=$(grep -E "go test" $out/demo.txt | head -1 | sed 's/^[^g]*go test/go test/; s/`//g')
for f in $out/*.go; do
  base=$(basename $f)
  dest=$(grep -oE "copy to \(relative to repo root\): *[A-Za-z0-9_/.-]*$base" $out/demo.txt | head -1 | sed 's/.*: *//')
  [ -z "$dest" ] && dest=$(grep -oE "[A-Za-z0-9_/.-]+/$base" $out/demo.txt | head -1)
  if [ -z "$dest" ]; then dest=$(grep -oE "[A-Za-z0-9_/.-]+/" $out/demo.txt | head -1)$base; fi
  dest=${dest#/tmp/seed/*/}
  mkdir -p $(dirname $dest); cp $f $dest
  echo "demo file: $dest"
done
echo "demo cmd: $democmd"
clean_ok=0; for i in 1 2 3; do if timeout 600 bash -c "$democmd" >/tmp/sv_$name.clean.log 2>&1; then clean_ok=1; break; fi; done
git apply $out/patch.diff || { res "patch does not apply"; exit 1; }
go build ./... || { res "does not build"; exit 1; }
# suite without the demo files
mkdir -p /tmp/sv_$name.demo; for f in $out/*.go; do base=$(basename $f); find . -name $base -exec mv {} /tmp/sv_$name.demo/$base.__ \; -exec echo {} \; > /tmp/sv_$name.demo/$base.path; done
suite_ok=1
for i in 1 2; do
  if ! go test -vet=off -count=1 ./... > /tmp/sv_$name.suite$i.log 2>&1; then
    # tolerate one retry for timing-based flakes
    if ! go test -vet=off -count=1 ./... > /tmp/sv_$name.suite$i.retry.log 2>&1; then suite_ok=0; fi
  fi
done
for f in $out/*.go; do base=$(basename $f); p=$(cat /tmp/sv_$name.demo/$base.path | head -1); [ -n "$p" ] && mv /tmp/sv_$name.demo/$base.__ $p; done
demo_fails=0; if ! timeout 600 bash -c "$democmd" >/tmp/sv_$name.mut.log 2>&1; then demo_fails=1; fi
res "clean_demo_passes=$clean_ok suite_passes_with_change=$suite_ok demo_fails_with_change=$demo_fails"
cd /; git -C /repo worktree remove --force $wt
